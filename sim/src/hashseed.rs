//! Makes std's HashMap/HashSet iteration order a function of the run seed.
//!
//! std seeds `RandomState` once per thread from getrandom(2), reached through a weak
//! reference to the libc symbol `getrandom`. This binary defines that symbol; the bytes it
//! returns derive from a per-thread seed that the simulator sets before the thread creates
//! its first map. Threads without a seed (seed 0) get bytes derived from 0.
//!
//! Also hosts the panic-message capture used to attribute daemon-thread panics.

use std::cell::Cell;
use std::sync::Mutex;

thread_local! {
    static SEED: Cell<u64> = const { Cell::new(0) };
    static CTR: Cell<u64> = const { Cell::new(0) };
    static LAST_PANIC: Cell<Option<String>> = const { Cell::new(None) };
}

pub fn set_thread_seed(seed: u64) {
    SEED.with(|s| s.set(seed));
    CTR.with(|c| c.set(0));
}

/// # Safety
/// Called by libc users with a valid buffer of `len` bytes.
#[no_mangle]
pub unsafe extern "C" fn getrandom(buf: *mut u8, len: usize, _flags: u32) -> isize {
    let seed = SEED.with(|s| s.get());
    let mut ctr = CTR.with(|c| c.get());
    let mut i = 0;
    while i < len {
        let x = crate::rng::mix(seed, ctr).to_le_bytes();
        ctr += 1;
        let k = (len - i).min(8);
        unsafe { std::ptr::copy_nonoverlapping(x.as_ptr(), buf.add(i), k) };
        i += k;
    }
    CTR.with(|c| c.set(ctr));
    len as isize
}

/// Hash of the iteration order of a fresh HashSet created on a fresh thread with `seed`.
pub fn probe_order(seed: u64) -> Vec<u32> {
    std::thread::spawn(move || {
        set_thread_seed(seed);
        let s: std::collections::HashSet<u32> = (0..32).collect();
        s.into_iter().collect::<Vec<u32>>()
    })
    .join()
    .unwrap()
}

/// Checks that the interposition is effective. Err(text) if not.
pub fn selftest() -> Result<(), String> {
    let a = probe_order(12345);
    let b = probe_order(12345);
    let c = probe_order(54321);
    let d = probe_order(999);
    if a != b {
        return Err("hash order differs for equal seeds: getrandom interposition is not effective".into());
    }
    if a == c && a == d {
        return Err("hash order does not depend on the seed".into());
    }
    Ok(())
}

static PANICS: Mutex<Vec<String>> = Mutex::new(Vec::new());

pub fn install_panic_hook() {
    std::panic::set_hook(Box::new(|info| {
        let msg = if let Some(s) = info.payload().downcast_ref::<&str>() {
            s.to_string()
        } else if let Some(s) = info.payload().downcast_ref::<String>() {
            s.clone()
        } else {
            "<non-string panic>".to_string()
        };
        let loc = info.location().map(|l| format!("{}:{}", l.file(), l.line())).unwrap_or_default();
        let th = std::thread::current().name().unwrap_or("?").to_string();
        let text = format!("[{th}] {msg} @ {loc}");
        LAST_PANIC.with(|p| p.set(Some(text.clone())));
        if std::env::var_os("VERIF_SHOW_PANICS").is_some() {
            eprintln!("panic: {text}");
        }
        if let Ok(mut v) = PANICS.lock() {
            if v.len() < 1000 {
                v.push(text);
            }
        }
    }));
}

pub fn take_panic_msg() -> Option<String> {
    LAST_PANIC.with(|p| p.take())
}

pub fn last_global_panic() -> Option<String> {
    PANICS.lock().ok().and_then(|v| v.last().cloned())
}
