//! A scenario is plain data: topology, configuration, timed operations and the fault
//! configuration. Executing it consults no source of nondeterminism outside the file,
//! so a scenario file is a replay file.

use crate::wire::{Msg, Rec};
use serde::{Deserialize, Serialize};

fn yes() -> bool {
    true
}
fn is_true(b: &bool) -> bool {
    *b
}
fn is_false(b: &bool) -> bool {
    !*b
}
fn is_zero(v: &u64) -> bool {
    *v == 0
}
fn is_zero32(v: &u32) -> bool {
    *v == 0
}
fn is_zero_i(v: &i64) -> bool {
    *v == 0
}

#[derive(Serialize, Deserialize, Clone, Debug, PartialEq)]
pub struct AddrSpec {
    pub ip: String,
    pub prefix: u8,
}

#[derive(Serialize, Deserialize, Clone, Debug, PartialEq)]
pub struct IfSpec {
    pub name: String,
    pub index: u32,
    pub addrs: Vec<AddrSpec>,
    /// network segment this interface is attached to
    pub seg: usize,
    #[serde(default = "yes", skip_serializing_if = "is_true")]
    pub up: bool,
}

#[derive(Serialize, Deserialize, Clone, Debug)]
pub struct DutCfg {
    pub ifs: Vec<IfSpec>,
    #[serde(default = "yes", skip_serializing_if = "is_true")]
    pub v4: bool,
    #[serde(default = "yes", skip_serializing_if = "is_true")]
    pub v6: bool,
    /// clock offset of this host relative to world time (ms)
    #[serde(default, skip_serializing_if = "is_zero_i")]
    pub epoch_off: i64,
    /// C14: hand control to the driver at the yield points
    #[serde(default, skip_serializing_if = "is_false")]
    pub yields: bool,
}

#[derive(Serialize, Deserialize, Clone, Debug, Default)]
pub struct ResponderCfg {
    pub records: Vec<Rec>,
    #[serde(default)]
    pub delay_ms: u64,
    /// leave out records that the query lists as known answers with ttl > half
    #[serde(default)]
    pub honor_known_answers: bool,
    /// PTR answers bring SRV/TXT/address additionals, SRV answers bring addresses
    #[serde(default = "yes")]
    pub additionals: bool,
    #[serde(default = "yes")]
    pub active: bool,
    /// answer at most this many queries (None = unlimited)
    #[serde(default)]
    pub max_answers: Option<u32>,
    /// ignore the first n matching queries
    #[serde(default)]
    pub skip_first: u32,
    /// answer the DUT's probes with conflicting SRV / address records, at most this many times per name
    #[serde(default)]
    pub conflict_probes: u32,
}

#[derive(Serialize, Deserialize, Clone, Debug)]
pub struct PeerCfg {
    pub seg: usize,
    pub v4: Option<String>,
    pub v6: Option<String>,
    #[serde(default)]
    pub responder: Option<ResponderCfg>,
}

#[derive(Serialize, Deserialize, Clone, Debug, Default)]
pub struct NetCfg {
    /// base one-way latency in ms
    pub base_ms: u64,
    #[serde(default, skip_serializing_if = "is_zero")]
    pub jitter_ms: u64,
    /// per-delivery probabilities in 1/1000
    #[serde(default, skip_serializing_if = "is_zero32")]
    pub drop_pm: u32,
    #[serde(default, skip_serializing_if = "is_zero32")]
    pub dup_pm: u32,
    #[serde(default, skip_serializing_if = "is_zero32")]
    pub corrupt_pm: u32,
    /// extra long delay (reordering across packets) probability and bound
    #[serde(default, skip_serializing_if = "is_zero32")]
    pub late_pm: u32,
    #[serde(default, skip_serializing_if = "is_zero")]
    pub late_max_ms: u64,
    /// faults apply only to deliveries sent before this time (0 = always): "once faults stop"
    #[serde(default, skip_serializing_if = "is_zero")]
    pub faults_until: u64,
    #[serde(default)]
    pub seed: u64,
    /// a DUT hears its own multicast (IP_MULTICAST_LOOP default)
    #[serde(default = "yes", skip_serializing_if = "is_true")]
    pub self_loop: bool,
}

#[derive(Serialize, Deserialize, Clone, Debug, Default)]
pub struct SchedCfg {
    /// maximum wake-up latency in ms (0 = strict)
    #[serde(default, skip_serializing_if = "is_zero")]
    pub max_latency: u64,
    #[serde(default, skip_serializing_if = "is_zero32")]
    pub spurious_pm: u32,
    /// one datagram per step instead of draining everything that has arrived
    #[serde(default, skip_serializing_if = "is_false")]
    pub one_per_step: bool,
    /// drain the v6 socket before the v4 socket
    #[serde(default, skip_serializing_if = "is_false")]
    pub v6_first: bool,
    #[serde(default)]
    pub seed: u64,
    /// wake every DUT at every multiple of this many ms although nothing is due (0 = off)
    #[serde(default, skip_serializing_if = "is_zero")]
    pub tick_ms: u64,
    /// fixed values returned by the jitter seam, in order; afterwards `jitter_seed` or 0
    #[serde(default, skip_serializing_if = "Vec::is_empty")]
    pub jitter: Vec<Vec<u64>>,
    #[serde(default)]
    pub jitter_seed: Option<u64>,
    /// jitter as a function of the (virtual) time of the draw: all draws of one registration agree,
    /// different registrations differ
    #[serde(default, skip_serializing_if = "Option::is_none")]
    pub jitter_time_seed: Option<u64>,
}

#[derive(Serialize, Deserialize, Clone, Debug, PartialEq)]
pub enum IfKindSpec {
    All,
    IPv4,
    IPv6,
    Name(String),
    Addr(String),
    LoopbackV4,
    LoopbackV6,
    IndexV4(u32),
    IndexV6(u32),
    /// predicate: interface name starts with the prefix
    NamePrefix(String),
}

#[derive(Serialize, Deserialize, Clone, Debug, PartialEq)]
pub struct SvcSpec {
    /// may contain "._sub."
    pub ty: String,
    pub instance: String,
    pub host: String,
    pub addrs: Vec<String>,
    pub port: u16,
    #[serde(default)]
    pub txt: Vec<(String, Option<Vec<u8>>)>,
    #[serde(default)]
    pub addr_auto: bool,
    #[serde(default = "yes")]
    pub probe: bool,
    #[serde(default)]
    pub intfs: Option<Vec<IfKindSpec>>,
    #[serde(default)]
    pub link_local_only: bool,
    /// how the TXT list is handed to the crate: "vec" (Vec<TxtProperty>), "slice" (&[(K,V)]), "map", "none"
    #[serde(default)]
    pub txt_via: Option<String>,
}

#[derive(Serialize, Deserialize, Clone, Debug, PartialEq)]
pub enum Dest {
    /// to the mDNS group on the peer's segment
    Mcast,
    /// directly to DUT d (on the peer's segment)
    Unicast { d: usize },
}

#[derive(Serialize, Deserialize, Clone, Debug, PartialEq)]
pub enum Op {
    Browse { d: usize, ty: String, slot: u32 },
    BrowseCache { d: usize, ty: String, slot: u32 },
    StopBrowse { d: usize, ty: String },
    ResolveHost { d: usize, host: String, timeout: Option<u64>, slot: u32 },
    StopResolveHost { d: usize, host: String },
    Register { d: usize, svc: SvcSpec },
    Unregister { d: usize, fullname: String, slot: u32 },
    Verify { d: usize, instance: String, timeout_ms: u64 },
    Monitor { d: usize, slot: u32 },
    Shutdown { d: usize, slot: u32 },
    Status { d: usize, slot: u32 },
    Metrics { d: usize, slot: u32 },
    SetIpCheck { d: usize, secs: u32 },
    EnableIf { d: usize, kinds: Vec<IfKindSpec> },
    DisableIf { d: usize, kinds: Vec<IfKindSpec> },
    AcceptUnsolicited { d: usize, on: bool },
    SetLoopV4 { d: usize, on: bool },
    SetLoopV6 { d: usize, on: bool },
    SetNameLenMax { d: usize, n: u8 },
    IncludeAppleP2p { d: usize, on: bool },
    /// client drops the receiver it holds in `slot`
    DropSlot { d: usize, slot: u32 },
    PeerSend { p: usize, v4: bool, sport: u16, msg: Msg, to: Dest },
    PeerRaw { p: usize, v4: bool, sport: u16, hex: String, to: Dest },
    PeerSet { p: usize, records: Vec<Rec> },
    PeerActive { p: usize, on: bool },
    /// replace the interface table of the simulated host
    IfTable { d: usize, ifs: Vec<IfSpec> },
    /// the node does not run for `ms` although due
    Stall { d: usize, ms: u64 },
    /// arm a fault knob: send_fail | join_fail | mcast_if_fail | ifaddrs_fail | recv_wouldblock
    Fault { d: usize, kind: String, n: u32 },
    /// all traffic on the segment is lost while on
    Partition { seg: usize, on: bool },
    /// the virtual clock of DUT d jumps by `ms` (may be negative)
    ClockJump { d: usize, ms: i64 },
    Mark { label: String },
}

impl Op {
    pub fn dut(&self) -> Option<usize> {
        use Op::*;
        match self {
            Browse { d, .. } | BrowseCache { d, .. } | StopBrowse { d, .. } | ResolveHost { d, .. }
            | StopResolveHost { d, .. } | Register { d, .. } | Unregister { d, .. } | Verify { d, .. }
            | Monitor { d, .. } | Shutdown { d, .. } | Status { d, .. } | Metrics { d, .. }
            | SetIpCheck { d, .. } | EnableIf { d, .. } | DisableIf { d, .. } | AcceptUnsolicited { d, .. }
            | SetLoopV4 { d, .. } | SetLoopV6 { d, .. } | SetNameLenMax { d, .. } | IncludeAppleP2p { d, .. }
            | DropSlot { d, .. } | IfTable { d, .. } | Stall { d, .. } | Fault { d, .. } | ClockJump { d, .. } => Some(*d),
            _ => None,
        }
    }
    pub fn is_api(&self) -> bool {
        use Op::*;
        matches!(
            self,
            Browse { .. } | BrowseCache { .. } | StopBrowse { .. } | ResolveHost { .. } | StopResolveHost { .. }
                | Register { .. } | Unregister { .. } | Verify { .. } | Monitor { .. } | Shutdown { .. }
                | Status { .. } | Metrics { .. } | SetIpCheck { .. } | EnableIf { .. } | DisableIf { .. }
                | AcceptUnsolicited { .. } | SetLoopV4 { .. } | SetLoopV6 { .. } | SetNameLenMax { .. }
                | IncludeAppleP2p { .. }
        )
    }
}

#[derive(Serialize, Deserialize, Clone, Debug, PartialEq)]
pub struct TimedOp {
    pub at: u64,
    pub op: Op,
}

/// C14: client calls made while the daemon is at its n-th yield point.
#[derive(Serialize, Deserialize, Clone, Debug, PartialEq)]
pub struct YieldAction {
    pub d: usize,
    pub nth: u32,
    pub ops: Vec<Op>,
}

#[derive(Serialize, Deserialize, Clone, Debug)]
pub struct Scenario {
    pub prop: String,
    /// generator family inside the property
    #[serde(default)]
    pub family: String,
    pub seed: u64,
    pub duts: Vec<DutCfg>,
    #[serde(default)]
    pub peers: Vec<PeerCfg>,
    #[serde(default)]
    pub net: NetCfg,
    #[serde(default)]
    pub sched: SchedCfg,
    pub ops: Vec<TimedOp>,
    #[serde(default, skip_serializing_if = "Vec::is_empty")]
    pub yield_plan: Vec<YieldAction>,
    pub horizon_ms: u64,
    #[serde(default = "default_max_steps")]
    pub max_steps: u64,
    /// free-form parameters the property's oracle needs (written by its generator)
    #[serde(default)]
    pub params: serde_json::Value,
}

fn default_max_steps() -> u64 {
    20_000
}

impl Scenario {
    pub fn new(prop: &str, family: &str, seed: u64) -> Scenario {
        Scenario {
            prop: prop.to_string(),
            family: family.to_string(),
            seed,
            duts: vec![],
            peers: vec![],
            net: NetCfg { base_ms: 1, self_loop: true, seed, ..Default::default() },
            sched: SchedCfg { seed, ..Default::default() },
            ops: vec![],
            yield_plan: vec![],
            horizon_ms: 10_000,
            max_steps: default_max_steps(),
            params: serde_json::Value::Null,
        }
    }
    pub fn op(&mut self, at: u64, op: Op) {
        self.ops.push(TimedOp { at, op });
    }
    pub fn sort_ops(&mut self) {
        self.ops.sort_by_key(|o| o.at);
    }
}

pub fn simple_if(name: &str, index: u32, v4: Option<(&str, u8)>, v6: Option<(&str, u8)>, seg: usize) -> IfSpec {
    let mut addrs = vec![];
    if let Some((ip, p)) = v4 {
        addrs.push(AddrSpec { ip: ip.to_string(), prefix: p });
    }
    if let Some((ip, p)) = v6 {
        addrs.push(AddrSpec { ip: ip.to_string(), prefix: p });
    }
    IfSpec { name: name.to_string(), index, addrs, seg, up: true }
}

/// One DUT with one IPv4 interface eth0 (index 2) 192.168.<net>.<host>/24 on segment `seg`.
pub fn dut_v4(net: u8, host: u8, seg: usize) -> DutCfg {
    DutCfg {
        ifs: vec![simple_if("eth0", 2, Some((&format!("192.168.{net}.{host}"), 24)), None, seg)],
        v4: true,
        v6: true,
        epoch_off: 0,
        yields: false,
    }
}

pub fn dut_dual(net: u8, host: u8, seg: usize) -> DutCfg {
    DutCfg {
        ifs: vec![simple_if(
            "eth0",
            2,
            Some((&format!("192.168.{net}.{host}"), 24)),
            Some((&format!("fe80::{net:x}:{host:x}"), 64)),
            seg,
        )],
        v4: true,
        v6: true,
        epoch_off: 0,
        yields: false,
    }
}

pub fn peer_v4(net: u8, host: u8, seg: usize) -> PeerCfg {
    PeerCfg { seg, v4: Some(format!("192.168.{net}.{host}")), v6: None, responder: None }
}

pub fn peer_dual(net: u8, host: u8, seg: usize) -> PeerCfg {
    PeerCfg {
        seg,
        v4: Some(format!("192.168.{net}.{host}")),
        v6: Some(format!("fe80::{net:x}:{host:x}")),
        responder: None,
    }
}
