//! The recorded history of one run: everything the oracles judge.

use crate::wire::Msg;
use serde::Serialize;
use std::collections::BTreeMap;
use std::net::{IpAddr, SocketAddr};

#[derive(Clone, Debug, PartialEq, Eq, Serialize)]
pub enum Cause {
    Start,
    Timeout,
    Rx,
    Signal,
    Spurious,
    Yield,
}

#[derive(Clone, Debug, Serialize)]
pub struct Step {
    pub idx: usize,
    pub d: usize,
    pub t: u64,
    pub cause: Cause,
    pub n_rx: usize,
    pub n_tx: usize,
    pub n_ev: usize,
    /// timeout (ms) the daemon asked for when it parked at the end of this step
    pub timeout: Option<u64>,
    /// true if the step ended with the daemon thread gone
    pub exited: bool,
    /// wall-clock microseconds of the step
    pub wall_us: u64,
    /// bytes allocated by the daemon thread during the step
    pub alloc_bytes: u64,
}

#[derive(Clone, Debug, Serialize)]
pub struct Tx {
    pub idx: usize,
    pub d: usize,
    pub t: u64,
    pub step: usize,
    pub if_index: Option<u32>,
    pub v4: bool,
    pub dest: SocketAddr,
    pub mcast: bool,
    #[serde(skip)]
    pub bytes: Vec<u8>,
    pub msg: Option<Msg>,
    pub malformed: Option<String>,
}

#[derive(Clone, Debug, PartialEq, Eq, Serialize)]
pub enum Fate {
    Delivered,
    Dropped,
    Partitioned,
    NotJoined,
}

#[derive(Clone, Debug, PartialEq, Eq, Serialize)]
pub enum Src {
    Dut(usize),
    Peer(usize),
}

#[derive(Clone, Debug, Serialize)]
pub struct Rx {
    pub id: usize,
    pub src: Src,
    /// receiving DUT and its interface index
    pub d: usize,
    pub if_index: u32,
    pub v4: bool,
    pub from: SocketAddr,
    pub unicast: bool,
    pub t_sent: u64,
    pub t_arrive: u64,
    pub fate: Fate,
    pub dup_of: Option<usize>,
    pub corrupted: bool,
    #[serde(skip)]
    pub bytes: Vec<u8>,
    /// parse of the bytes as delivered (None if unparsable)
    pub msg: Option<Msg>,
    /// step of the receiving DUT that read it from the socket
    pub step: Option<usize>,
    /// time of that step
    pub t_read: Option<u64>,
}

/// What a peer saw.
#[derive(Clone, Debug, Serialize)]
pub struct PeerRx {
    pub p: usize,
    pub t: u64,
    pub from_d: usize,
    pub tx: usize,
    pub unicast: bool,
    pub v4: bool,
}

#[derive(Clone, Debug, PartialEq, Eq, Serialize)]
pub struct AddrView {
    pub ip: IpAddr,
    /// (interface name, index) tags
    pub intfs: Vec<(String, u32)>,
}

#[derive(Clone, Debug, PartialEq, Eq, Serialize)]
pub struct ResolvedView {
    pub ty: String,
    pub sub: Option<String>,
    pub fullname: String,
    pub host: String,
    pub port: u16,
    pub addrs: Vec<AddrView>,
    pub txt: Vec<(String, Option<Vec<u8>>)>,
    /// keys whose case-insensitive look-up did not return the property (C16)
    pub lookup_mismatch: Vec<String>,
}

#[derive(Clone, Debug, PartialEq, Eq, Serialize)]
pub enum EvKind {
    SearchStarted(String),
    Found(String, String),
    Resolved(Box<ResolvedView>),
    Removed(String, String),
    SearchStopped(String),
    HStarted(String),
    HFound(String, Vec<AddrView>),
    HRemoved(String, Vec<AddrView>),
    HTimeout(String),
    HStopped(String),
    MonAnnounce(String, String),
    MonError(String),
    MonIpAdd(IpAddr),
    MonIpDel(IpAddr),
    MonNameChange { original: String, new_name: String, ty: u16, intf: String },
    MonRespond(String),
    UnregOk,
    UnregNotFound,
    StatusRunning,
    StatusShutdown,
    Metrics(BTreeMap<String, i64>),
    /// the sender side of the channel is gone and the channel is empty
    Disconnected,
    Other(String),
}

#[derive(Clone, Debug, Serialize)]
pub struct Ev {
    pub d: usize,
    pub slot: u32,
    pub step: usize,
    pub t: u64,
    pub ev: EvKind,
}

#[derive(Clone, Debug, PartialEq, Eq, Serialize)]
pub enum ApiOutcome {
    Ok,
    ErrAgain,
    ErrShutdown,
    ErrMsg(String),
    ErrParse(String),
    /// ServiceInfo::new refused the arguments
    InfoRefused(String),
    Panic(String),
}

#[derive(Clone, Debug, Serialize)]
pub struct ApiRes {
    /// index into Scenario.ops, or usize::MAX for yield-plan ops
    pub op: usize,
    pub d: usize,
    pub t: u64,
    /// number of steps of that DUT completed before the call
    pub before_step: usize,
    pub outcome: ApiOutcome,
    pub at_yield: Option<(u32, String)>,
    /// the call itself when it came from the yield plan (op == usize::MAX)
    pub yield_op: Option<crate::scenario::Op>,
}

#[derive(Clone, Debug, Serialize)]
pub struct Fatal {
    /// "panic" | "hang" | "exit" | "malformed-egress" | "caller-panic" | "step-cap"
    pub kind: String,
    pub d: usize,
    pub t: u64,
    pub step: usize,
    pub detail: String,
}

#[derive(Clone, Debug, Default, Serialize)]
pub struct Stats {
    pub steps: u64,
    pub sim_ms: u64,
    pub tx: u64,
    pub rx_delivered: u64,
    pub dropped: u64,
    pub duplicated: u64,
    pub corrupted: u64,
    pub late: u64,
    pub partitioned: u64,
    pub spurious: u64,
    pub stalls: u64,
    pub latency_injected: u64,
    pub seam_faults: [u64; 8],
    pub truncated_rx: u64,
    pub yields: u64,
}

#[derive(Clone, Debug, Default, Serialize)]
pub struct Trace {
    pub steps: Vec<Step>,
    pub tx: Vec<Tx>,
    pub rx: Vec<Rx>,
    pub peer_rx: Vec<PeerRx>,
    pub events: Vec<Ev>,
    pub api: Vec<ApiRes>,
    pub fatal: Vec<Fatal>,
    pub stats: Stats,
    /// jitter values the daemons drew, per DUT
    pub jitter_draws: Vec<Vec<u64>>,
    /// times at which ops were executed (index-aligned with Scenario.ops)
    pub op_times: Vec<Option<u64>>,
    /// final phase per DUT: "parked" | "exited" | "panicked" | "hung"
    pub final_phase: Vec<String>,
}

impl Trace {
    pub fn events_of(&self, d: usize, slot: u32) -> impl Iterator<Item = &Ev> {
        self.events.iter().filter(move |e| e.d == d && e.slot == slot)
    }
    pub fn tx_of(&self, d: usize) -> impl Iterator<Item = &Tx> {
        self.tx.iter().filter(move |x| x.d == d)
    }
    /// Deliveries actually read by DUT d.
    pub fn rx_read_by(&self, d: usize) -> impl Iterator<Item = &Rx> {
        self.rx.iter().filter(move |x| x.d == d && x.step.is_some())
    }

    /// A hash of the complete observable history (determinism self-test).
    pub fn fingerprint(&self) -> u64 {
        use crate::rng::{mix, mix_str};
        let mut h = 0x1234_5678u64;
        for s in &self.steps {
            h = mix(h, s.d as u64);
            h = mix(h, s.t);
            h = mix(h, s.n_rx as u64);
            h = mix(h, s.n_tx as u64);
            h = mix(h, s.n_ev as u64);
            h = mix(h, s.timeout.map(|v| v + 1).unwrap_or(0));
            h = mix(h, s.cause.clone() as u64);
        }
        for x in &self.tx {
            h = mix(h, x.t);
            h = mix(h, x.if_index.unwrap_or(0) as u64);
            for b in &x.bytes {
                h = mix(h, *b as u64);
            }
        }
        for r in &self.rx {
            h = mix(h, r.t_arrive);
            h = mix(h, r.fate.clone() as u64);
            h = mix(h, r.step.map(|s| s + 1).unwrap_or(0) as u64);
        }
        for e in &self.events {
            h = mix(h, e.t);
            h = mix(h, e.slot as u64);
            h = mix_str(h, &format!("{:?}", e.ev));
        }
        for a in &self.api {
            h = mix_str(h, &format!("{:?}", a.outcome));
        }
        for f in &self.fatal {
            h = mix_str(h, &f.kind);
        }
        h
    }

    /// Schedule signature: the interleaving, not the data.
    pub fn schedule_signature(&self) -> u64 {
        use crate::rng::mix;
        let mut h = 0xABCDu64;
        for s in &self.steps {
            h = mix(h, s.d as u64);
            h = mix(h, s.cause.clone() as u64);
            h = mix(h, s.n_rx as u64);
            h = mix(h, s.n_tx as u64);
            h = mix(h, s.n_ev as u64);
        }
        h
    }
}
