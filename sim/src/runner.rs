//! Batch execution: seeded search over scenarios on worker threads, known-finding
//! matching, minimisation, replay files, fresh-process replay confirmation, evidence.

use crate::props::{Judged, Property, Tier, Violation};
use crate::rng::mix;
use crate::scenario::*;
use crate::trace::{Stats, Trace};
use crate::world;
use serde_json::{json, Value};
use std::collections::{BTreeMap, HashSet};
use std::path::{Path, PathBuf};
use std::sync::atomic::{AtomicBool, AtomicU64, Ordering};
use std::sync::Mutex;
use std::time::{Duration, Instant};

pub const VERIF_DIR: &str = "/verif";

#[derive(Clone, Debug)]
pub struct Known {
    pub id: String,
    pub property: String,
    pub rule: String,
    /// substring that must occur in the violation detail
    pub signature: String,
    pub status: String,
    pub description: String,
}

pub fn load_known() -> Vec<Known> {
    let p = Path::new(VERIF_DIR).join("known_findings.json");
    let Ok(s) = std::fs::read_to_string(&p) else { return vec![] };
    let Ok(v) = serde_json::from_str::<Value>(&s) else {
        eprintln!("HARNESS ERROR: known_findings.json does not parse");
        std::process::exit(2);
    };
    let mut out = vec![];
    for e in v.get("findings").and_then(|f| f.as_array()).cloned().unwrap_or_default() {
        let g = |k: &str| e.get(k).and_then(|x| x.as_str()).unwrap_or("").to_string();
        out.push(Known {
            id: g("id"),
            property: g("property"),
            rule: g("rule"),
            signature: g("signature"),
            status: g("status"),
            description: g("description"),
        });
    }
    out
}

pub fn match_known<'k>(known: &'k [Known], prop: &str, v: &Violation) -> Option<&'k Known> {
    known.iter().find(|k| {
        k.status == "known" && k.property == prop && k.rule == v.rule && !k.signature.is_empty() && v.detail.contains(&k.signature)
    })
}

/// Judge one executed scenario for `prop`. Daemon death is judged only by the properties
/// that own it (their oracles look at `trace.fatal` themselves); for all other properties a
/// dead daemon removes the precondition of every rule, so the run abstains.
pub fn judge(prop: &dyn Property, scn: &Scenario, tr: &Trace) -> (Judged, Vec<String>) {
    let mut foreign = vec![];
    let owns_death = matches!(prop.id(), "C15" | "C01" | "C14");
    let owns_malformed = matches!(prop.id(), "C02" | "C15");
    let mut abstain = false;
    for f in &tr.fatal {
        match f.kind.as_str() {
            "panic" | "hang" | "exit" | "caller-panic" => {
                if !owns_death {
                    foreign.push(format!("C15 {} d={} t={} {}", f.kind, f.d, f.t, f.detail));
                    if !prop.judges_after_death() {
                        abstain = true;
                    }
                }
            }
            "malformed-egress" => {
                if !owns_malformed {
                    foreign.push(format!("C02 malformed-egress d={} t={} {}", f.d, f.t, f.detail));
                }
            }
            "harness-panic" => {
                foreign.push(format!("HARNESS {}", f.detail));
                abstain = true;
            }
            _ => {}
        }
    }
    if abstain {
        let mut j = Judged::default();
        j.abstained = 1;
        return (j, foreign);
    }
    (prop.judge(scn, tr), foreign)
}

pub struct Opts {
    pub tier: Tier,
    pub seed: u64,
    pub threads: usize,
    pub runs: Option<u64>,
    pub budget_s: Option<u64>,
    pub verbose: bool,
}

struct Found {
    index: u64,
    scn: Scenario,
    v: Violation,
    hang: bool,
}

#[derive(Default)]
struct Agg {
    evaluations: u64,
    judgements: u64,
    nontrivial_sigs: HashSet<u64>,
    all_sigs: HashSet<u64>,
    histories: HashSet<u64>,
    probes: BTreeMap<String, u64>,
    stats: Stats,
    abstained: u64,
    aborted_foreign: u64,
    foreign: BTreeMap<String, u64>,
    families: BTreeMap<String, u64>,
    samples: Vec<Value>,
    found: Vec<Found>,
    known_hits: BTreeMap<String, (u64, String)>,
    harness_errors: Vec<String>,
}

fn add_stats(a: &mut Stats, b: &Stats) {
    a.steps += b.steps;
    a.sim_ms += b.sim_ms;
    a.tx += b.tx;
    a.rx_delivered += b.rx_delivered;
    a.dropped += b.dropped;
    a.duplicated += b.duplicated;
    a.corrupted += b.corrupted;
    a.late += b.late;
    a.partitioned += b.partitioned;
    a.spurious += b.spurious;
    a.stalls += b.stalls;
    a.latency_injected += b.latency_injected;
    a.truncated_rx += b.truncated_rx;
    a.yields += b.yields;
    for i in 0..8 {
        a.seam_faults[i] += b.seam_faults[i];
    }
}

pub fn sample_of(scn: &Scenario, tr: &Trace) -> Value {
    let ops: Vec<String> = scn.ops.iter().take(12).map(|o| format!("@{} {}", o.at, short_op(&o.op))).collect();
    let wire: Vec<String> = tr
        .tx
        .iter()
        .take(8)
        .map(|x| format!("t={} d{} if{:?} {}", x.t, x.d, x.if_index, x.msg.as_ref().map(crate::wire::summarize).unwrap_or_default()))
        .collect();
    let evs: Vec<String> = tr.events.iter().take(8).map(|e| format!("t={} d{} s{} {}", e.t, e.d, e.slot, short_ev(&e.ev))).collect();
    json!({
        "family": scn.family, "seed": scn.seed, "duts": scn.duts.len(), "peers": scn.peers.len(),
        "n_ops": scn.ops.len(), "horizon_ms": scn.horizon_ms,
        "net": {"drop_pm": scn.net.drop_pm, "dup_pm": scn.net.dup_pm, "late_pm": scn.net.late_pm, "corrupt_pm": scn.net.corrupt_pm},
        "max_latency": scn.sched.max_latency,
        "first_ops": ops, "steps": tr.steps.len(), "first_packets": wire, "first_events": evs,
    })
}

pub fn short_op(op: &Op) -> String {
    let s = format!("{op:?}");
    if s.len() > 160 {
        format!("{}…", &s[..s.char_indices().take_while(|(i, _)| *i < 157).last().map(|(i, c)| i + c.len_utf8()).unwrap_or(0)])
    } else {
        s
    }
}

pub fn short_ev(e: &crate::trace::EvKind) -> String {
    let s = format!("{e:?}");
    if s.len() > 200 {
        format!("{}…", &s[..s.char_indices().take_while(|(i, _)| *i < 197).last().map(|(i, c)| i + c.len_utf8()).unwrap_or(0)])
    } else {
        s
    }
}

fn has_hang(tr: &Trace) -> bool {
    tr.fatal.iter().any(|f| f.kind == "hang")
}

/// Run a batch. Returns the process exit code.
pub fn check(prop: &dyn Property, o: &Opts) -> i32 {
    let t0 = Instant::now();
    let tier_name = if o.tier == Tier::Quick { "quick" } else { "thorough" };
    println!("VERIF_SEED={} property={} tier={} threads={}", o.seed, prop.id(), tier_name, o.threads);
    let known = load_known();
    let count = o.runs.unwrap_or_else(|| prop.count(o.tier));
    let next = AtomicU64::new(0);
    let stop_at = AtomicU64::new(u64::MAX);
    let hang_seen = AtomicBool::new(false);
    let agg = Mutex::new(Agg::default());
    let deadline = o.budget_s.map(|s| t0 + Duration::from_secs(s));

    // dedicated known-finding scenarios first (sequential, deterministic)
    let kf_scns = prop.known_finding_scenarios(o.seed);

    std::thread::scope(|sc| {
        for w in 0..o.threads {
            let agg = &agg;
            let next = &next;
            let stop_at = &stop_at;
            let hang_seen = &hang_seen;
            let known = &known;
            sc.spawn(move || {
                let alloc_base = 1 + w * 4;
                loop {
                    let i = next.fetch_add(1, Ordering::SeqCst);
                    if i >= count || i > stop_at.load(Ordering::SeqCst) || hang_seen.load(Ordering::SeqCst) {
                        break;
                    }
                    if let Some(dl) = deadline {
                        if Instant::now() > dl {
                            break;
                        }
                    }
                    let scn = prop.gen(o.seed, i, o.tier);
                    let tr = world::execute(&scn, alloc_base);
                    let (j, foreign) = judge(prop, &scn, &tr);
                    let sig = tr.schedule_signature();
                    let fp = tr.fingerprint();
                    let mut a = agg.lock().unwrap();
                    a.evaluations += 1;
                    a.judgements += j.judgements;
                    a.abstained += j.abstained;
                    *a.families.entry(scn.family.clone()).or_insert(0) += 1;
                    a.all_sigs.insert(sig);
                    a.histories.insert(fp);
                    if j.nontrivial {
                        a.nontrivial_sigs.insert(sig);
                    }
                    for (k, v) in &j.probes {
                        *a.probes.entry(k.clone()).or_insert(0) += v;
                    }
                    add_stats(&mut a.stats, &tr.stats);
                    if !foreign.is_empty() {
                        a.aborted_foreign += 1;
                        for f in foreign {
                            let key: String = f.chars().take(120).collect();
                            *a.foreign.entry(key).or_insert(0) += 1;
                        }
                    }
                    for f in &tr.fatal {
                        if f.kind == "harness-panic" {
                            a.harness_errors.push(f.detail.clone());
                        }
                    }
                    if a.samples.len() < 3 && (j.nontrivial || i < 3) {
                        let s = sample_of(&scn, &tr);
                        a.samples.push(s);
                    }
                    let hang = has_hang(&tr);
                    for v in j.violations {
                        if let Some(k) = match_known(known, prop.id(), &v) {
                            let e = a.known_hits.entry(k.id.clone()).or_insert((0, v.detail.clone()));
                            e.0 += 1;
                            continue;
                        }
                        stop_at.fetch_min(i, Ordering::SeqCst);
                        a.found.push(Found { index: i, scn: scn.clone(), v, hang });
                    }
                    if hang {
                        hang_seen.store(true, Ordering::SeqCst);
                    }
                    if o.verbose && a.evaluations % 500 == 0 {
                        eprintln!("  .. {} runs, {:.1}s", a.evaluations, t0.elapsed().as_secs_f64());
                    }
                }
            });
        }
    });

    let mut a = agg.into_inner().unwrap();

    // known-finding demonstrations
    let mut kf_lines = vec![];
    for (fid, scn) in &kf_scns {
        let Some(k) = known.iter().find(|k| &k.id == fid) else { continue };
        if k.status != "known" {
            continue;
        }
        let tr = world::execute(scn, 1);
        let (j, _) = judge(prop, scn, &tr);
        a.evaluations += 1;
        let mut hit = false;
        for v in j.violations {
            if let Some(kk) = match_known(&known, prop.id(), &v) {
                let e = a.known_hits.entry(kk.id.clone()).or_insert((0, v.detail.clone()));
                e.0 += 1;
                if kk.id == *fid {
                    hit = true;
                }
            } else {
                a.found.push(Found { index: u64::MAX, scn: scn.clone(), v, hang: has_hang(&tr) });
            }
        }
        if !hit {
            kf_lines.push(format!("NOTE: known finding {fid} was not re-observed by its dedicated scenario (fixed upstream? update known_findings.json)"));
        }
        if has_hang(&tr) {
            // a hung daemon thread is spinning; finish quickly
            break;
        }
    }
    for (id, (n, detail)) in &a.known_hits {
        let k = known.iter().find(|k| &k.id == id);
        println!(
            "KNOWN-FINDING: property={} {} [{}; rule {}; seen {}x; e.g. {}]",
            prop.id(),
            k.map(|k| k.description.as_str()).unwrap_or(""),
            id,
            k.map(|k| k.rule.as_str()).unwrap_or(""),
            n,
            detail.chars().take(200).collect::<String>()
        );
    }
    for l in kf_lines {
        println!("{l}");
    }
    for (f, n) in a.foreign.iter().take(5) {
        println!("NOTE: foreign fatal (judged by another check) {n}x: {f}");
    }

    let wall = t0.elapsed().as_secs_f64();
    let mut exit = 0;
    let mut violations = 0;
    if !a.harness_errors.is_empty() {
        eprintln!("HARNESS ERROR: driver panicked: {}", a.harness_errors[0]);
        exit = 2;
    }
    a.found.sort_by_key(|f| f.index);
    if let Some(f) = a.found.first() {
        violations = a.found.len();
        let mut scn = f.scn.clone();
        let rule = f.v.rule.clone();
        let mut detail = f.v.detail.clone();
        let any_hang = a.found.iter().any(|f| f.hang) || hang_seen.load(Ordering::SeqCst);
        if !any_hang {
            let (s2, d2, execs) = shrink(prop, &scn, &rule, &known);
            println!("minimised: {} ops -> {} ops in {} executions", scn.ops.len(), s2.ops.len(), execs);
            scn = s2;
            if let Some(d2) = d2 {
                detail = d2;
            }
        } else {
            println!("NOTE: a step hung; minimisation in this process is skipped (stuck thread)");
        }
        let path = write_replay(prop.id(), &scn, &rule, &detail);
        // confirm in a fresh process
        let ok = confirm_replay(&path, &rule);
        match ok {
            Some(true) => {
                println!("violation: rule={rule} {detail}");
                println!("VIOLATION property={} replay={}", prop.id(), path.display());
                exit = 1;
            }
            Some(false) => {
                eprintln!("HARNESS ERROR: replay {} did not reproduce rule {rule} in a fresh process", path.display());
                println!("violation (unconfirmed): rule={rule} {detail}");
                exit = 2;
            }
            None => {
                eprintln!("HARNESS ERROR: could not run the replay confirmation");
                exit = 2;
            }
        }
    }

    write_evidence(prop, o, tier_name, &a, wall, violations, count);
    println!(
        "{}: {} runs, {} distinct non-trivial, {} judgements, {:.1}s, {} sim-s, violations={}",
        prop.id(),
        a.evaluations,
        a.nontrivial_sigs.len(),
        a.judgements,
        wall,
        a.stats.sim_ms / 1000,
        violations
    );
    if hang_seen.load(Ordering::SeqCst) {
        // stuck daemon threads cannot be joined
        use std::io::Write;
        let _ = std::io::stdout().flush();
        std::process::exit(exit);
    }
    exit
}

fn write_evidence(prop: &dyn Property, o: &Opts, tier_name: &str, a: &Agg, wall: f64, violations: usize, planned: u64) {
    let runs_per_hour = if wall > 0.0 { (a.evaluations as f64 / wall * 3600.0) as u64 } else { 0 };
    let mut missing = vec![];
    for p in prop.expected_probes() {
        if !a.probes.contains_key(p) {
            missing.push(p);
        }
    }
    let faults = json!({
        "net_drop": a.stats.dropped, "net_duplicate": a.stats.duplicated, "net_corrupt": a.stats.corrupted,
        "net_late_reorder": a.stats.late, "net_partitioned": a.stats.partitioned,
        "sched_spurious_wake": a.stats.spurious, "sched_stall": a.stats.stalls,
        "sched_wake_latency_ms_total": a.stats.latency_injected,
        "seam_send_fail": a.stats.seam_faults[0], "seam_join_fail": a.stats.seam_faults[1],
        "seam_mcast_if_fail": a.stats.seam_faults[2], "seam_mcast_if_addr_gone": a.stats.seam_faults[3],
        "seam_get_if_addrs_fail": a.stats.seam_faults[4], "rx_truncated_by_buffer": a.stats.seam_faults[5],
        "seam_recv_wouldblock": a.stats.seam_faults[6], "yield_points_taken": a.stats.yields,
    });
    let ev = json!({
        "property_id": prop.id(),
        "tier": tier_name,
        "seed": o.seed,
        "level": prop.level(),
        "coverage": {
            "evaluations": a.evaluations,
            "distinct_nontrivial": a.nontrivial_sigs.len(),
            "rule": prop.rule_text(),
            "samples": a.samples,
            "exhaustive": false,
            "exhaustive_part": prop.exhaustive_part(o.tier),
            "planned_runs": planned,
            "oracle_judgements": a.judgements,
            "oracle_abstentions": a.abstained,
            "runs_aborted_by_foreign_fatal": a.aborted_foreign,
            "distinct_schedule_signatures": a.all_sigs.len(),
            "distinct_histories": a.histories.len(),
            "families": a.families,
            "simulated_seconds": a.stats.sim_ms / 1000,
            "steps": a.stats.steps,
            "runs_per_hour": runs_per_hour,
            "seeds_per_hour": runs_per_hour,
            "packets_sent_by_duts": a.stats.tx,
            "datagrams_read_by_duts": a.stats.rx_delivered,
            "faults_fired": faults,
            "probes": a.probes,
            "probes_expected_but_zero": missing,
            "known_findings_seen": a.known_hits.iter().map(|(k, v)| (k.clone(), v.0)).collect::<BTreeMap<_, _>>(),
            "components_real": [
                "Zeroconf::run loop body (unmodified) on its own thread", "command execution", "retransmissions and timers",
                "DnsCache", "DnsRegistry/Probe", "wire codec (DnsIncoming/DnsOutgoing)", "ServiceInfo/TXT code",
                "public ServiceDaemon API incl. its flume command and reply channels"
            ],
            "components_stub": [
                "kernel UDP sockets and multicast membership (simulated network)", "mio::Poll readiness / blocking (lock-step gate)",
                "signal socket (diverted to the simulator)", "if_addrs::get_if_addrs (simulated interface table)",
                "SystemTime (virtual clock)", "fastrand (seeded)", "std hash seeds (seeded via getrandom interposition)",
                "other mDNS hosts (scripted peers)"
            ],
        },
        "assumptions": prop.assumptions(),
        "wall_s": wall,
        "violations": violations,
    });
    let dir = Path::new(VERIF_DIR).join("evidence");
    let _ = std::fs::create_dir_all(&dir);
    let p = dir.join(format!("{}.json", prop.id()));
    if let Err(e) = std::fs::write(&p, serde_json::to_string_pretty(&ev).unwrap()) {
        eprintln!("HARNESS ERROR: cannot write evidence {}: {e}", p.display());
    }
}

pub fn write_replay(prop: &str, scn: &Scenario, rule: &str, detail: &str) -> PathBuf {
    let dir = Path::new(VERIF_DIR).join("replays");
    let _ = std::fs::create_dir_all(&dir);
    let p = dir.join(format!("{}-{}-{:x}.json", prop, rule, scn.seed));
    let v = json!({"property": prop, "rule": rule, "detail": detail, "scenario": scn});
    let _ = std::fs::write(&p, serde_json::to_string_pretty(&v).unwrap());
    p
}

pub fn load_replay(path: &Path) -> Result<(String, String, Scenario), String> {
    let s = std::fs::read_to_string(path).map_err(|e| e.to_string())?;
    let v: Value = serde_json::from_str(&s).map_err(|e| e.to_string())?;
    let prop = v.get("property").and_then(|x| x.as_str()).unwrap_or("").to_string();
    let rule = v.get("rule").and_then(|x| x.as_str()).unwrap_or("").to_string();
    let scn: Scenario = serde_json::from_value(v.get("scenario").cloned().unwrap_or(v.clone())).map_err(|e| e.to_string())?;
    let prop = if prop.is_empty() { scn.prop.clone() } else { prop };
    Ok((prop, rule, scn))
}

fn confirm_replay(path: &Path, rule: &str) -> Option<bool> {
    let exe = std::env::current_exe().ok()?;
    let out = std::process::Command::new(exe).arg("replay").arg(path).arg("--quiet").output().ok()?;
    let text = String::from_utf8_lossy(&out.stdout);
    let same = text.lines().any(|l| l.starts_with("replay-violation") && l.contains(&format!("rule={rule} ")));
    Some(out.status.code() == Some(1) && same)
}

/// Replay a file: execute, judge, print. Exit code 1 if the recorded rule (or any) fails.
pub fn replay(path: &Path, quiet: bool) -> i32 {
    let (pid, rule, scn) = match load_replay(path) {
        Ok(x) => x,
        Err(e) => {
            eprintln!("HARNESS ERROR: cannot load {}: {e}", path.display());
            return 2;
        }
    };
    let Some(prop) = crate::props::by_id(&pid) else {
        eprintln!("HARNESS ERROR: unknown property {pid}");
        return 2;
    };
    let tr = world::execute(&scn, 1);
    let (j, foreign) = judge(prop.as_ref(), &scn, &tr);
    if !quiet {
        crate::print_trace(&scn, &tr);
        for f in &foreign {
            println!("foreign: {f}");
        }
    }
    let mut code = 0;
    for v in &j.violations {
        println!("replay-violation rule={} {}", v.rule, v.detail);
        if rule.is_empty() || v.rule == rule {
            code = 1;
        }
    }
    if code == 1 {
        println!("VIOLATION property={} replay={}", pid, path.display());
    } else if !j.violations.is_empty() {
        code = 1;
    } else {
        println!("replay: no violation");
    }
    if has_hang(&tr) {
        use std::io::Write;
        let _ = std::io::stdout().flush();
        std::process::exit(code);
    }
    code
}

/// Delta-debugging over the scenario while the same rule keeps failing.
fn shrink(prop: &dyn Property, scn: &Scenario, rule: &str, known: &[Known]) -> (Scenario, Option<String>, u32) {
    let t0 = Instant::now();
    let mut execs = 0u32;
    let max_execs = 600;
    let budget = Duration::from_secs(30);
    let mut last_detail: Option<String> = None;
    let fails = |s: &Scenario, execs: &mut u32, last: &mut Option<String>| -> bool {
        if *execs >= max_execs || t0.elapsed() > budget {
            return false;
        }
        *execs += 1;
        let tr = world::execute(s, 1);
        if has_hang(&tr) {
            return false;
        }
        let (j, _) = judge(prop, s, &tr);
        for v in j.violations {
            if v.rule == rule && match_known(known, prop.id(), &v).is_none() {
                *last = Some(v.detail);
                return true;
            }
        }
        false
    };
    let mut cur = scn.clone();
    // A: benign faults
    macro_rules! try_mut {
        ($m:expr) => {{
            let mut c = cur.clone();
            #[allow(clippy::redundant_closure_call)]
            ($m)(&mut c);
            if fails(&c, &mut execs, &mut last_detail) {
                cur = c;
            }
        }};
    }
    if cur.net.drop_pm > 0 {
        try_mut!(|c: &mut Scenario| c.net.drop_pm = 0);
    }
    if cur.net.dup_pm > 0 {
        try_mut!(|c: &mut Scenario| c.net.dup_pm = 0);
    }
    if cur.net.late_pm > 0 {
        try_mut!(|c: &mut Scenario| c.net.late_pm = 0);
    }
    if cur.net.corrupt_pm > 0 {
        try_mut!(|c: &mut Scenario| c.net.corrupt_pm = 0);
    }
    if cur.net.jitter_ms > 0 {
        try_mut!(|c: &mut Scenario| c.net.jitter_ms = 0);
    }
    if cur.sched.max_latency > 0 {
        try_mut!(|c: &mut Scenario| c.sched.max_latency = 0);
    }
    if cur.sched.spurious_pm > 0 {
        try_mut!(|c: &mut Scenario| c.sched.spurious_pm = 0);
    }
    if cur.sched.one_per_step {
        try_mut!(|c: &mut Scenario| c.sched.one_per_step = false);
    }
    if cur.sched.jitter_seed.is_some() {
        try_mut!(|c: &mut Scenario| c.sched.jitter_seed = None);
    }
    // B: ddmin over ops
    let mut n = 2usize;
    while cur.ops.len() >= 2 && execs < max_execs && t0.elapsed() < budget {
        let len = cur.ops.len();
        let chunk = len.div_ceil(n);
        let mut reduced = false;
        let mut i = 0;
        while i < len {
            let mut c = cur.clone();
            let hi = (i + chunk).min(len);
            c.ops.drain(i..hi);
            if !c.ops.is_empty() && fails(&c, &mut execs, &mut last_detail) {
                cur = c;
                n = (n - 1).max(2);
                reduced = true;
                break;
            }
            i += chunk;
        }
        if !reduced {
            if chunk <= 1 {
                break;
            }
            n = (n * 2).min(len);
        }
    }
    // C: peers without responders, fewer yield actions
    for p in 0..cur.peers.len() {
        if cur.peers[p].responder.is_some() {
            try_mut!(|c: &mut Scenario| c.peers[p].responder = None);
        }
    }
    while !cur.yield_plan.is_empty() {
        let mut c = cur.clone();
        c.yield_plan.pop();
        if fails(&c, &mut execs, &mut last_detail) {
            cur = c;
        } else {
            break;
        }
    }
    // D: horizon
    let last_op = cur.ops.iter().map(|o| o.at).max().unwrap_or(0);
    for h in [last_op + 2_000, last_op + 10_000, last_op + 60_000, cur.horizon_ms / 4, cur.horizon_ms / 2] {
        if h < cur.horizon_ms && h > last_op {
            let mut c = cur.clone();
            c.horizon_ms = h;
            if fails(&c, &mut execs, &mut last_detail) {
                cur = c;
                break;
            }
        }
    }
    (cur, last_detail, execs)
}

/// Determinism self-test: every generator, several seeds, executed repeatedly in this
/// process on different threads; fingerprints must agree. Returns exit code.
pub fn selftest_determinism(props: &[Box<dyn Property>], runs: u64, seed: u64, threads: usize) -> i32 {
    let bad = AtomicU64::new(0);
    let total = AtomicU64::new(0);
    let out = Mutex::new(Vec::new());
    for p in props {
        let next = AtomicU64::new(0);
        std::thread::scope(|sc| {
            for w in 0..threads {
                let next = &next;
                let bad = &bad;
                let total = &total;
                let out = &out;
                sc.spawn(move || loop {
                    let i = next.fetch_add(1, Ordering::SeqCst);
                    if i >= runs {
                        break;
                    }
                    let idx = mix(seed, i) % p.count(Tier::Quick).max(1);
                    let scn = p.gen(seed, idx, Tier::Quick);
                    let a = world::execute(&scn, 1 + w * 4);
                    if has_hang(&a) {
                        break;
                    }
                    let b = world::execute(&scn, 1 + w * 4);
                    total.fetch_add(1, Ordering::SeqCst);
                    let fa = a.fingerprint();
                    let fb = b.fingerprint();
                    out.lock().unwrap().push(format!("{} {} {:016x}", p.id(), idx, fa));
                    if fa != fb {
                        bad.fetch_add(1, Ordering::SeqCst);
                        let d = |t: &Trace| format!("steps={} tx={} rx={} ev={} api={} fatal={:?}", t.steps.len(), t.tx.len(), t.rx.len(), t.events.len(), t.api.len(), t.fatal.iter().map(|f| format!("{}@{}:{}", f.kind, f.t, f.detail.chars().take(60).collect::<String>())).collect::<Vec<_>>());
                        eprintln!("NONDETERMINISM: {} index {} seed {}: {:x} vs {:x}\n   A: {}\n   B: {}", p.id(), idx, seed, fa, fb, d(&a), d(&b));
                        for (k, (x, y)) in a.tx.iter().zip(b.tx.iter()).enumerate() {
                            if x.t != y.t || x.if_index != y.if_index || x.bytes != y.bytes {
                                eprintln!("   first differing tx {k}: A t={} if={:?} {} | B t={} if={:?} {}", x.t, x.if_index, x.msg.as_ref().map(crate::wire::summarize).unwrap_or_default(), y.t, y.if_index, y.msg.as_ref().map(crate::wire::summarize).unwrap_or_default());
                                break;
                            }
                        }
                        for (k, (x, y)) in a.rx.iter().zip(b.rx.iter()).enumerate() {
                            if x.t_arrive != y.t_arrive || x.fate != y.fate || x.step != y.step {
                                eprintln!("   first differing rx {k}: A {:?} {:?} {:?} | B {:?} {:?} {:?}", x.t_arrive, x.fate, x.step, y.t_arrive, y.fate, y.step);
                                break;
                            }
                        }
                        for (k, (x, y)) in a.events.iter().zip(b.events.iter()).enumerate() {
                            if x.t != y.t || x.slot != y.slot || format!("{:?}", x.ev) != format!("{:?}", y.ev) {
                                eprintln!("   first differing event {k}: A t={} slot={} {:?} | B t={} slot={} {:?}", x.t, x.slot, x.ev, y.t, y.slot, y.ev);
                                break;
                            }
                        }
                        for (k, (x, y)) in a.api.iter().zip(b.api.iter()).enumerate() {
                            if x.outcome != y.outcome {
                                eprintln!("   first differing api {k}: A {:?} | B {:?}", x.outcome, y.outcome);
                                break;
                            }
                        }
                        // first differing step
                        for (k, (x, y)) in a.steps.iter().zip(b.steps.iter()).enumerate() {
                            if x.d != y.d || x.t != y.t || x.n_rx != y.n_rx || x.n_tx != y.n_tx || x.n_ev != y.n_ev || x.timeout != y.timeout || x.cause != y.cause {
                                eprintln!("   first differing step {k}: A {:?} | B {:?}", x, y);
                                break;
                            }
                        }
                    }
                });
            }
        });
    }
    let mut lines = out.into_inner().unwrap();
    lines.sort();
    let mut h = 0u64;
    for l in &lines {
        h = crate::rng::mix_str(h, l);
    }
    println!("determinism: {} scenario pairs, {} mismatches, digest {:016x}", total.load(Ordering::SeqCst), bad.load(Ordering::SeqCst), h);
    if bad.load(Ordering::SeqCst) > 0 {
        2
    } else {
        0
    }
}
