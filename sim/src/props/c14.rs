//! C14 — shutdown is clean, final and safe under concurrent use.
//!
//! The "concurrency" of the API is the order in which commands enter the daemon's bounded
//! queue and where, relative to the daemon's processing, each client call happens. Both are
//! simulator decisions: client calls are executed by the driver between steps and at the
//! three yield points (before each command is executed, after clean-up, before the Shutdown
//! reply).

use super::common::*;
use super::txmodel::*;
use super::{Judged, Property, Tier};
use crate::rng::{mix, Rng};
use crate::scenario::*;
use crate::trace::*;
use crate::wire;

pub struct C14;

fn svc(k: u64, probe: bool) -> SvcSpec {
    // (instance names with capital letters from the second service on: tables are keyed in lower case)
    SvcSpec { ty: "_http._tcp.local.".into(), instance: if k == 0 { "shut0".to_string() } else { format!("Shut Down {k}") }, host: format!("shuthost{k}.local."), addrs: vec!["192.168.1.10".into()], port: 8000 + k as u16, txt: vec![], addr_auto: false, probe, intfs: None, link_local_only: false, txt_via: None }
}

/// One client call of kind k using reply slot `slot`.
fn call(k: u64, slot: u32) -> Op {
    match k % 12 {
        0 => Op::Register { d: 0, svc: svc(7 + slot as u64, false) },
        1 => Op::Unregister { d: 0, fullname: "shut0._http._tcp.local.".into(), slot },
        2 => Op::Browse { d: 0, ty: "_late._udp.local.".into(), slot },
        3 => Op::StopBrowse { d: 0, ty: "_alpha._udp.local.".into() },
        4 => Op::ResolveHost { d: 0, host: "late.local.".into(), timeout: Some(5000), slot },
        5 => Op::StopResolveHost { d: 0, host: "somehost.local.".into() },
        6 => Op::Verify { d: 0, instance: "x._alpha._udp.local.".into(), timeout_ms: 1000 },
        7 => Op::Monitor { d: 0, slot },
        8 => Op::Status { d: 0, slot },
        9 => Op::Metrics { d: 0, slot },
        10 => Op::SetIpCheck { d: 0, secs: 7 },
        _ => Op::DisableIf { d: 0, kinds: vec![IfKindSpec::Name("nosuch0".into())] },
    }
}

const T_BURST: u64 = 4000;

impl Property for C14 {
    fn id(&self) -> &'static str {
        "C14"
    }
    fn level(&self) -> &'static str {
        "fault_enumeration"
    }
    fn count(&self, tier: Tier) -> u64 {
        match tier {
            Tier::Quick => 1500,
            Tier::Thorough => 30_000,
        }
    }
    fn exhaustive_part(&self, _tier: Tier) -> Option<&'static str> {
        Some("position of the shutdown command among N <= 4 other commands (every position 0..=N) x the yield point at which further client calls are made (while Exit is being dequeued / after clean-up / after the command receiver is dropped, before the reply / none); kinds and orders of the other commands are sampled")
    }
    fn rule_text(&self) -> &'static str {
        "worlds: a DUT with 0-2 registered services (announced or still probing), 0-2 browses and 0-1 hostname searches; at one instant a burst of N <= 4 client calls of distinct kinds (register, unregister, browse, stop_browse, resolve_hostname, stop, verify, monitor, status, get_metrics, set option, disable_interface) with one shutdown at every position; further client calls (incl. a second shutdown) are made while the daemon sits at a yield point: before Exit is executed, after clean-up while the command receiver is still alive, after the receiver is dropped but before the Shutdown reply, and at later times; queue filled to its 100-entry bound in some worlds. Rules: every call returns Ok / Again / DaemonShutdown / Msg without panic; every reply receiver ends with a value or disconnected; one goodbye per announced service per interface and family, SearchStopped once and last on every open channel; the first shutdown's receiver yields Shutdown; calls made after a client has read Shutdown fail with DaemonShutdown and status() yields Shutdown; commands dequeued before Exit got their normal reply. Non-trivial = a world where >= 1 command was queued behind Exit or issued between clean-up and the reply; distinct by schedule signature."
    }
    fn assumptions(&self) -> Vec<&'static str> {
        vec![
            "concurrency is decided at command granularity through the three yield points; instruction-level races inside flume or between client threads are out of reach (the crate forbids unsafe code and shares only the flume Sender)",
            "a real-thread stress run is not part of this check",
        ]
    }
    fn expected_probes(&self) -> Vec<&'static str> {
        vec!["command-queued-behind-exit", "call-between-cleanup-and-reply", "call-after-receiver-dropped", "second-shutdown", "call-after-shutdown-read", "shutdown-with-announced-service", "shutdown-with-probing-service", "shutdown-with-open-browse", "queue-full"]
    }

    fn gen(&self, seed: u64, index: u64, _tier: Tier) -> Scenario {
        let rs = mix(seed, index);
        let mut rng = Rng::new(rs, 0x14);
        let mut s = Scenario::new("C14", "burst", rs);
        strict(&mut s);
        s.net.self_loop = rng.bool();
        let mut dut = dut_v4(1, 10, 0);
        dut.yields = true;
        s.duts.push(dut);
        let mut n_cmds = 0u32; // commands the daemon dequeues before the burst
        s.op(0, Op::SetIpCheck { d: 0, secs: HUGE_IP_CHECK_SECS });
        s.op(0, Op::Monitor { d: 0, slot: 1 });
        n_cmds += 2;
        let n_svc = rng.below(3);
        for k in 0..n_svc {
            // announced (no probing, or registered early) or still probing at the burst
            let late = rng.below(3) == 0;
            s.op(if late { T_BURST - 300 } else { 100 + k * 50 }, Op::Register { d: 0, svc: svc(k, late || rng.bool()) });
            n_cmds += 1;
        }
        // 0-2 browses; in a quarter of the worlds 3-6 of which one or two receivers are dropped by the client (without
        // stop_browse) before the shutdown
        let many = rng.below(4) == 0;
        let n_b = if many { 3 + rng.below(4) } else { rng.below(3) };
        for k in 0..n_b {
            s.op(200 + k * 10, Op::Browse { d: 0, ty: ty_name(k), slot: 10 + k as u32 });
            n_cmds += 1;
        }
        if many {
            for _ in 0..1 + rng.below(2) {
                s.op(400, Op::DropSlot { d: 0, slot: 10 + rng.below(n_b) as u32 });
            }
        }
        if rng.bool() {
            s.op(300, Op::ResolveHost { d: 0, host: "somehost.local.".into(), timeout: if rng.bool() { Some(60_000) } else { None }, slot: 20 });
            n_cmds += 1;
        }
        // the burst: N other commands of distinct kinds, shutdown at position p
        let n = (index % 5) as usize; // 0..=4
        let p = ((index / 5) % (n as u64 + 1)) as usize;
        let placement = (index / 30) % 4; // where the extra client calls are made
        let mut kinds: Vec<u64> = (0..12).collect();
        rng.shuffle(&mut kinds);
        let mut slot = 50u32;
        let mut burst: Vec<Op> = vec![];
        for i in 0..=n {
            if i == p {
                burst.push(Op::Shutdown { d: 0, slot: 40 });
            }
            if i < n {
                burst.push(call(kinds[i], slot));
                slot += 1;
            }
        }
        let fill_queue = rng.below(12) == 0;
        if fill_queue {
            // fill the command queue to its bound before the shutdown call
            for _ in 0..105 {
                s.op(T_BURST, Op::StopBrowse { d: 0, ty: "_nosuch._udp.local.".into() });
            }
        }
        for op in burst {
            s.op(T_BURST, op);
        }
        // extra client calls at a yield point of the Exit processing
        let extra: Vec<Op> = (0..1 + rng.below(3)).map(|i| {
            slot += 1;
            if i == 0 && rng.bool() { Op::Shutdown { d: 0, slot } } else { call(rng.below(12), slot) }
        }).collect();
        let exit_yield = n_cmds + p as u32 + if fill_queue { 100 } else { 0 };
        match placement {
            1 => s.yield_plan.push(YieldAction { d: 0, nth: exit_yield, ops: extra }),
            2 => s.yield_plan.push(YieldAction { d: 0, nth: exit_yield + 1, ops: extra }),
            3 => s.yield_plan.push(YieldAction { d: 0, nth: exit_yield + 2, ops: extra }),
            _ => {}
        }
        // later calls
        for (i, dt) in [5u64, 1000, 6000].iter().enumerate() {
            slot += 1;
            let op = match (rng.below(5), i) {
                (0, _) => Op::Shutdown { d: 0, slot },
                (1, _) => Op::Status { d: 0, slot },
                (2, _) => Op::Browse { d: 0, ty: "_after._udp.local.".into(), slot },
                (3, _) => Op::Register { d: 0, svc: svc(9, true) },
                _ => Op::Metrics { d: 0, slot },
            };
            s.op(T_BURST + dt, op);
        }
        s.horizon_ms = T_BURST + 8000;
        s.params = serde_json::json!({"exit_yield": exit_yield, "placement": placement, "p": p, "n": n, "fill": fill_queue});
        s.sort_ops();
        s
    }

    fn judge(&self, scn: &Scenario, tr: &Trace) -> Judged {
        let mut j = Judged::default();
        let d = 0;
        // R1: no panic in callers, daemon thread did not panic / hang
        for f in &tr.fatal {
            match f.kind.as_str() {
                "caller-panic" => j.fail("C14-R1", format!("a client call panicked: {}", f.detail)),
                "panic" => j.fail("C14-R1", format!("the daemon thread panicked during/after shutdown handling: {}", f.detail)),
                "hang" => j.fail("C14-R1", format!("a step did not finish: {}", f.detail)),
                _ => {}
            }
        }
        for a in &tr.api {
            j.judgements += 1;
            match &a.outcome {
                ApiOutcome::Ok | ApiOutcome::ErrAgain | ApiOutcome::ErrShutdown | ApiOutcome::ErrMsg(_) => {}
                other => j.fail("C14-R1", format!("client call returned {:?}", other)),
            }
            if a.outcome == ApiOutcome::ErrAgain {
                j.probe("queue-full");
            }
        }
        let exited = tr.final_phase.first().map(|s| s == "exited").unwrap_or(false);
        // the first shutdown call that was accepted
        let shutdowns: Vec<&ApiRes> = tr.api.iter().filter(|a| a.outcome == ApiOutcome::Ok && matches!(op_of(scn, a), Some(Op::Shutdown { .. }))).collect();
        let Some(first) = shutdowns.first() else {
            return j;
        };
        if shutdowns.len() > 1 {
            j.probe("second-shutdown");
        }
        j.judgements += 1;
        if !exited {
            j.fail("C14-R4", format!("shutdown() was accepted at t={} but the daemon thread did not end (final phase {:?})", first.t, tr.final_phase));
            return j;
        }
        // exit step = the last step of the DUT
        let exit_step = tr.steps.iter().filter(|s| s.d == d).last().map(|s| s.idx).unwrap_or(0);
        let exit_t = tr.steps[exit_step].t;
        // R4: the first shutdown's receiver yields Shutdown
        let first_slot = match op_of(scn, first) {
            Some(Op::Shutdown { slot, .. }) => *slot,
            _ => 0,
        };
        let got = tr.events.iter().filter(|e| e.d == d && e.slot == first_slot).map(|e| &e.ev).collect::<Vec<_>>();
        if !got.iter().any(|e| matches!(e, EvKind::StatusShutdown)) {
            j.fail("C14-R4", format!("the first shutdown() (t={}) never received the Shutdown status on its channel: {:?}", first.t, got));
        }
        // R2: every reply receiver ends with a value or disconnected
        for a in tr.api.iter().filter(|a| a.outcome == ApiOutcome::Ok) {
            let Some(op) = op_of(scn, a) else { continue };
            let (slot, is_reply) = match op {
                Op::Unregister { slot, .. } | Op::Status { slot, .. } | Op::Metrics { slot, .. } | Op::Shutdown { slot, .. } => (*slot, true),
                Op::Browse { slot, .. } | Op::ResolveHost { slot, .. } | Op::Monitor { slot, .. } | Op::BrowseCache { slot, .. } => (*slot, false),
                _ => continue,
            };
            if scn.ops.iter().any(|o| matches!(o.op, Op::DropSlot { slot: s, .. } if s == slot)) {
                continue;
            }
            j.judgements += 1;
            let evs: Vec<&Ev> = tr.events.iter().filter(|e| e.d == d && e.slot == slot).collect();
            let has_value = evs.iter().any(|e| !matches!(e.ev, EvKind::Disconnected));
            let disconnected = evs.iter().any(|e| matches!(e.ev, EvKind::Disconnected));
            // queued behind Exit?
            let behind = a.t >= first.t && tr.api.iter().position(|x| std::ptr::eq(x, a)) > tr.api.iter().position(|x| std::ptr::eq(x, *first));
            if behind {
                if a.at_yield.as_ref().map(|y| y.1 == "exit-cleaned").unwrap_or(false) {
                    j.probe("call-between-cleanup-and-reply");
                } else if a.at_yield.as_ref().map(|y| y.1 == "exit-reply").unwrap_or(false) {
                    j.probe("call-after-receiver-dropped");
                } else {
                    j.probe("command-queued-behind-exit");
                }
                j.nontrivial = true;
            }
            if is_reply && !has_value && !disconnected {
                j.fail(
                    "C14-R2",
                    format!("reply channel of {} (called at t={}{}) is empty and still connected after the daemon has exited: a client waiting on it would block for ever{}", crate::runner::short_op(op), a.t, a.at_yield.as_ref().map(|y| format!(", while the daemon was at yield point '{}'", y.1)).unwrap_or_default(), if behind { " (the command was queued behind Exit)" } else { "" }),
                );
            }
            if !is_reply && !disconnected && !matches!(op, Op::Monitor { .. }) && !behind {
                j.fail("C14-R2", format!("event channel of {} is still connected after the daemon has exited", crate::runner::short_op(op)));
            }
            // R6: dequeued before Exit => a value, not a disconnect
            if is_reply && !behind && !has_value && !matches!(op, Op::Shutdown { .. }) {
                j.fail("C14-R6", format!("{} was called at t={} before shutdown but its reply channel yielded no value", crate::runner::short_op(op), a.t));
            }
        }
        // R3: clean-up exactly once
        let m = TxModel::build(scn, tr, d);
        for (si, s) in m.svcs.iter().enumerate() {
            if s.end_kind != Some("shutdown") {
                continue;
            }
            for (ifx, v4) in m.usable(scn, s) {
                let announced = m.first_announce(tr, si, ifx, v4).is_some();
                if announced {
                    j.probe("shutdown-with-announced-service");
                } else {
                    j.probe("shutdown-with-probing-service");
                }
                // (goodbyes of an earlier unregister of the same name, and their repeats, are not the shutdown's)
                let gb = tr.tx.iter().filter(|x| x.t >= exit_t && x.d == d && x.if_index == Some(ifx) && x.v4 == v4 && x.msg.as_ref().map(|mm| mm.is_response() && mm.answers.iter().any(|r| r.ttl == 0 && r.ty == wire::T_SRV && r.name.eq_ci(&s.fullname))).unwrap_or(false)).count();
                j.judgements += 1;
                if announced && gb != 1 {
                    j.fail("C14-R3", format!("shutdown at t={}: {} goodbyes for announced service {} on if{} {} (expected exactly one)", exit_t, gb, s.fullname.escaped(), ifx, if v4 { "v4" } else { "v6" }));
                }
                if !announced && gb != 0 {
                    j.fail("C14-R3", format!("shutdown at t={}: goodbye for service {} that was never announced on if{}", exit_t, s.fullname.escaped(), ifx));
                }
            }
        }
        for a in tr.api.iter().filter(|a| a.outcome == ApiOutcome::Ok) {
            let Some(op) = op_of(scn, a) else { continue };
            let (slot, is_browse) = match op {
                Op::Browse { slot, .. } => (*slot, true),
                Op::ResolveHost { slot, .. } => (*slot, false),
                _ => continue,
            };
            if scn.ops.iter().any(|o| matches!(&o.op, Op::DropSlot { slot: s2, .. } if *s2 == slot)) {
                j.probe("receiver-dropped-before-shutdown");
                continue; // the client dropped this receiver: nothing is observed on it
            }
            // open at exit? (dequeued before Exit and not stopped / timed out)
            let evs: Vec<&Ev> = tr.events.iter().filter(|e| e.d == d && e.slot == slot && !matches!(e.ev, EvKind::Disconnected)).collect();
            if evs.is_empty() {
                continue; // never dequeued (queued behind Exit)
            }
            j.probe("shutdown-with-open-browse");
            j.judgements += 1;
            let stops = evs.iter().filter(|e| matches!(e.ev, EvKind::SearchStopped(_) | EvKind::HStopped(_))).count();
            let last_is_stop = evs.last().map(|e| matches!(e.ev, EvKind::SearchStopped(_) | EvKind::HStopped(_))).unwrap_or(false);
            let replaced = tr.api.iter().any(|o| !std::ptr::eq(o, a) && o.outcome == ApiOutcome::Ok && o.t >= a.t && match (op_of(scn, o), op) {
                (Some(Op::Browse { ty: t1, .. }), Op::Browse { ty: t2, .. }) => t1 == t2,
                (Some(Op::ResolveHost { host: h1, .. }), Op::ResolveHost { host: h2, .. }) => h1.to_lowercase() == h2.to_lowercase(),
                _ => false,
            });
            if replaced {
                continue;
            }
            if stops != 1 || !last_is_stop {
                j.fail("C14-R3", format!("{} channel (slot {}): {} SearchStopped events, last event {:?} (expected exactly one SearchStopped, as the last event)", if is_browse { "browse" } else { "hostname" }, slot, stops, evs.last().map(|e| &e.ev)));
            }
        }
        // R5: calls made after a client has read Shutdown
        let read_t = tr.events.iter().filter(|e| e.d == d && matches!(e.ev, EvKind::StatusShutdown)).map(|e| (e.step, e.t)).min();
        if let Some((rstep, rt)) = read_t {
            for a in tr.api.iter().filter(|a| a.at_yield.is_none() && a.t > rt) {
                let Some(op) = op_of(scn, a) else { continue };
                j.probe("call-after-shutdown-read");
                j.judgements += 1;
                match op {
                    Op::Status { slot, .. } => {
                        let ok = a.outcome == ApiOutcome::Ok && tr.events.iter().any(|e| e.slot == *slot && matches!(e.ev, EvKind::StatusShutdown));
                        if !ok {
                            j.fail("C14-R5", format!("status() at t={} after Shutdown was read at t={}: outcome {:?}, channel did not yield Shutdown", a.t, rt, a.outcome));
                        }
                    }
                    _ => {
                        if a.outcome != ApiOutcome::ErrShutdown {
                            j.fail("C14-R5", format!("{} at t={} after a client had read Shutdown (t={}) returned {:?} instead of DaemonShutdown", crate::runner::short_op(op), a.t, rt, a.outcome));
                        }
                    }
                }
            }
            let _ = rstep;
        }
        j
    }
}

fn op_of<'s>(scn: &'s Scenario, a: &'s ApiRes) -> Option<&'s Op> {
    if a.op != usize::MAX {
        return scn.ops.get(a.op).map(|o| &o.op);
    }
    a.yield_op.as_ref()
}
