//! "Mallory": hostile datagram generators shared by C01 and C15.

use crate::rng::Rng;
use crate::wire::{self, Msg, Name, RData, Rec};

fn hdr(flags: u16, qd: u16, an: u16, ns: u16, ar: u16) -> Vec<u8> {
    let mut v = vec![0, 0];
    v.extend_from_slice(&flags.to_be_bytes());
    v.extend_from_slice(&qd.to_be_bytes());
    v.extend_from_slice(&an.to_be_bytes());
    v.extend_from_slice(&ns.to_be_bytes());
    v.extend_from_slice(&ar.to_be_bytes());
    v
}

/// A valid-looking response about the names the DUT cares for (so that mutations hit consumers).
pub fn valid_base(rng: &mut Rng, ty: &str, host: &str) -> Msg {
    let tyn = Name::from_dotted(ty);
    let mut labels = vec![format!("mal{}", rng.below(4)).into_bytes()];
    labels.extend(tyn.0.iter().cloned());
    let inst = Name(labels);
    let hostn = Name::from_dotted(host);
    let mut m = Msg::response();
    m.answers.push(Rec::ptr(&tyn, &inst, 120));
    m.answers.push(Rec::srv(&inst, &hostn, 80, 120, true));
    m.answers.push(Rec::txt(&inst, wire::txt_encode(&[("a".into(), Some(b"b".to_vec()))]), 120, true));
    m.additionals.push(Rec::a(&hostn, [192, 168, 1, 66], 120, true));
    m.additionals.push(Rec::aaaa(&hostn, [0xfe, 0x80, 0, 0, 0, 0, 0, 0, 0, 0, 0, 0, 0, 0, 0, 0x66], 120, true));
    if rng.bool() {
        m.additionals.push(Rec { name: inst.clone(), ty: wire::T_NSEC, class: 1 | wire::FLUSH, ttl: 120, rdata: RData::Nsec { next: inst.clone(), bitmap: vec![0, 4, 0, 0, 0x80, 0] } });
    }
    if rng.bool() {
        m.additionals.push(Rec { name: hostn.clone(), ty: wire::T_HINFO, class: 1, ttl: 120, rdata: RData::Hinfo { cpu: b"x86".to_vec(), os: b"linux".to_vec() } });
    }
    m
}

/// Mutations of a valid packet.
pub fn mutate(rng: &mut Rng, mut b: Vec<u8>) -> Vec<u8> {
    if b.is_empty() {
        return b;
    }
    for _ in 0..1 + rng.below(3) {
        if b.is_empty() {
            break;
        }
        match rng.below(8) {
            0 => {
                let i = rng.below(b.len() as u64) as usize;
                b[i] ^= 1 << rng.below(8);
            }
            1 => {
                let i = rng.below(b.len() as u64) as usize;
                b[i] = [0u8, 0xC0, 0xFF, 0x3F, 0x40, 0x80, 0x0C][rng.below(7) as usize];
            }
            2 => {
                let n = rng.below(b.len() as u64 + 1) as usize;
                b.truncate(n);
            }
            3 => {
                let n = 1 + rng.below(40) as usize;
                let e = rng.bytes(n);
                b.extend_from_slice(&e);
            }
            4 => {
                if b.len() >= 12 {
                    let f = 4 + 2 * rng.below(4) as usize;
                    let v = [0u16, 1, 2, 7, 255, 65535][rng.below(6) as usize];
                    b[f..f + 2].copy_from_slice(&v.to_be_bytes());
                }
            }
            5 => {
                // rewrite a 16-bit field somewhere to a small/large value (RDLENGTH hits)
                if b.len() > 14 {
                    let i = 12 + rng.below(b.len() as u64 - 13) as usize;
                    let v = [0u16, 1, 3, 4, 5, 15, 16, 17, 0xFFFF][rng.below(9) as usize];
                    b[i..i + 2].copy_from_slice(&v.to_be_bytes());
                }
            }
            6 => {
                // insert a compression pointer somewhere
                if b.len() > 14 {
                    let i = 12 + rng.below(b.len() as u64 - 13) as usize;
                    let tgt = rng.below(b.len() as u64) as u16;
                    b[i] = 0xC0 | (tgt >> 8) as u8;
                    b[i + 1] = tgt as u8;
                }
            }
            _ => {
                // splice: duplicate a slice of itself
                let i = rng.below(b.len() as u64) as usize;
                let n = rng.below((b.len() - i) as u64 + 1) as usize;
                let s = b[i..i + n].to_vec();
                let at = rng.below(b.len() as u64) as usize;
                let tail = b.split_off(at);
                b.extend_from_slice(&s);
                b.extend_from_slice(&tail);
            }
        }
    }
    b
}

/// Grammar packets: arbitrary section counts, RDLENGTH smaller / larger / zero for every type the decoder
/// dispatches on, pointer graphs (forward, self, mutual, into RDATA, into the header), odd label bytes.
pub fn grammar(rng: &mut Rng) -> Vec<u8> {
    let response = rng.below(4) != 0;
    let flags = if response { 0x8400 } else { 0 };
    let kind = rng.below(14);
    match kind {
        0 => {
            // header id bytes form a pointer, question name points into the header
            let mut v = hdr(flags, 1, 0, 0, 0);
            let t = [0u8, 2, 4, 6, 10][rng.below(5) as usize];
            v[0] = 0xC0;
            v[1] = t;
            v.extend_from_slice(&[0xC0, 0x00, 0, 12, 0, 1]);
            v
        }
        1 => {
            // self pointer / mutual pointers in the question name
            let mut v = hdr(flags, 1, 0, 0, 0);
            match rng.below(3) {
                0 => v.extend_from_slice(&[0xC0, 12, 0, 12, 0, 1]),
                1 => v.extend_from_slice(&[0xC0, 14, 0xC0, 12, 0, 12, 0, 1]),
                _ => v.extend_from_slice(&[1, b'a', 0xC0, 12, 0, 12, 0, 1]),
            }
            v
        }
        2 => {
            // answer whose RDATA holds a pointer cycle that a later name points into
            let mut v = hdr(0x8400, 0, 2, 0, 0);
            // rec 1: name "a", TXT, rdata = [C0 <self>]
            v.extend_from_slice(&[1, b'a', 0]);
            v.extend_from_slice(&[0, 16, 0, 1, 0, 0, 0, 120, 0, 2]);
            let at = v.len() as u8;
            v.extend_from_slice(&[0xC0, at]);
            // rec 2: name = pointer into that rdata
            v.extend_from_slice(&[0xC0, at]);
            v.extend_from_slice(&[0, 12, 0, 1, 0, 0, 0, 120, 0, 2, 0xC0, 12]);
            v
        }
        3 | 4 => {
            // one record of a dispatched type with a chosen RDLENGTH vs. actual content
            let tys = [1u16, 28, 12, 5, 33, 16, 13, 47, 99];
            let ty = tys[rng.below(9) as usize];
            let mut v = hdr(0x8400, 0, 1, 0, 0);
            v.extend_from_slice(&[1, b'x', 5, b'l', b'o', b'c', b'a', b'l', 0]);
            v.extend_from_slice(&ty.to_be_bytes());
            v.extend_from_slice(&[0, 1, 0, 0, 0, 120]);
            let content: Vec<u8> = match ty {
                1 => vec![1, 2, 3, 4],
                28 => vec![0xfe; 16],
                12 | 5 => vec![1, b'y', 0],
                33 => vec![0, 0, 0, 0, 0, 80, 1, b'h', 0],
                16 => vec![3, b'a', b'=', b'b'],
                13 => vec![1, b'c', 1, b'o'],
                47 => vec![1, b'n', 0, 0, 1, 0x40],
                _ => vec![9, 9, 9],
            };
            let claimed: u16 = match rng.below(6) {
                0 => 0,
                1 => content.len() as u16,
                2 => content.len().saturating_sub(1) as u16,
                3 => content.len() as u16 + 1,
                4 => 0xFFFF,
                _ => rng.below(20) as u16,
            };
            v.extend_from_slice(&claimed.to_be_bytes());
            let n = match rng.below(3) {
                0 => content.len(),
                1 => (claimed as usize).min(content.len()),
                _ => rng.below(content.len() as u64 + 1) as usize,
            };
            v.extend_from_slice(&content[..n]);
            v
        }
        5 => {
            // zero-length HINFO at the very end of the datagram
            let mut v = hdr(0x8400, 0, 1, 0, 0);
            v.extend_from_slice(&[1, b'h', 0, 0, 13, 0, 1, 0, 0, 0, 120, 0, 0]);
            v
        }
        6 => {
            // label length bytes 0x40 / 0x80 / 0xC0 variants, non-UTF-8 labels
            let mut v = hdr(flags, 1, 0, 0, 0);
            let l = [0x40u8, 0x80, 0xBF, 0x3F, 0xC1, 0xFF][rng.below(6) as usize];
            v.push(l);
            let n = rng.below(70) as usize;
            let e = rng.bytes(n);
            v.extend_from_slice(&e);
            v.extend_from_slice(&[0, 0, 12, 0, 1]);
            v
        }
        7 => {
            // huge section counts with little data
            let mut v = hdr(flags, [0u16, 1, 65535][rng.below(3) as usize], 65535, 65535, 65535);
            let n = rng.below(30) as usize;
            let e = rng.bytes(n);
            v.extend_from_slice(&e);
            v
        }
        8 => {
            // many tiny records (allocation per record)
            let n = 100 + rng.below(600) as u16;
            let mut v = hdr(0x8400, 0, n, 0, 0);
            for _ in 0..n {
                v.extend_from_slice(&[0, 0, 16, 0, 1, 0, 0, 0, 10, 0, 0]);
            }
            v
        }
        9 => {
            // a long chain of pointers below the name start
            let mut v = hdr(0x8400, 0, 1, 0, 0);
            // build k two-byte pointers each pointing to the previous one, the first to a root label
            v.push(0);
            let base = v.len();
            let k = 2 + rng.below(400) as usize;
            let mut prev = (base - 1) as u16;
            for _ in 0..k {
                let at = v.len() as u16;
                v.push(0xC0 | (prev >> 8) as u8);
                v.push(prev as u8);
                prev = at;
            }
            // the record name: pointer to the last pointer
            v.push(0xC0 | (prev >> 8) as u8);
            v.push(prev as u8);
            v.extend_from_slice(&[0, 16, 0, 1, 0, 0, 0, 10, 0, 0]);
            v
        }
        10 => {
            // labels that sum to more than 255 bytes via pointers
            let mut v = hdr(0x8400, 0, 1, 0, 0);
            let start = v.len();
            for _ in 0..4 {
                v.push(63);
                v.extend_from_slice(&[b'z'; 63]);
            }
            v.push(0);
            // name: 63-byte label + pointer to the 252-byte name
            v.push(63);
            v.extend_from_slice(&[b'q'; 63]);
            v.push(0xC0);
            v.push(start as u8);
            v.extend_from_slice(&[0, 12, 0, 1, 0, 0, 0, 120, 0, 2, 0xC0, start as u8]);
            v
        }
        11 | 12 => {
            // a random functional graph of compression pointers: k two-byte slots (inside the RDATA of a TXT record or
            // in front of a question), each pointing at any slot (backwards, forwards, itself), at a label or at the root;
            // the name that is decoded starts with a pointer to one of the slots. Covers chains whose later hops point
            // at or above an earlier target.
            let k = 2 + rng.below(5) as usize;
            let in_rdata = rng.bool();
            let mut v = if in_rdata { hdr(0x8400, 0, 2, 0, 0) } else { hdr(flags, 1, 0, 0, 0) };
            if in_rdata {
                v.extend_from_slice(&[1, b'a', 0]);
                v.extend_from_slice(&[0, 16, 0, 1, 0, 0, 0, 120, 0, (2 * k + 3) as u8]);
            }
            let base = v.len();
            let label_at = base + 2 * k; // [1 'x' 0] follows the slots
            for _ in 0..k {
                let t = match rng.below(k as u64 + 2) as usize {
                    i if i < k => base + 2 * i,
                    i if i == k => label_at,
                    _ => label_at + 2,
                };
                v.push(0xC0 | (t >> 8) as u8);
                v.push(t as u8);
            }
            v.extend_from_slice(&[1, b'x', 0]);
            let start = base + 2 * rng.below(k as u64) as usize;
            if rng.below(3) == 0 {
                v.extend_from_slice(&[1, b'y']);
            }
            v.push(0xC0 | (start >> 8) as u8);
            v.push(start as u8);
            if in_rdata {
                v.extend_from_slice(&[0, 12, 0, 1, 0, 0, 0, 120, 0, 2, 0xC0, start as u8]);
            } else {
                v.extend_from_slice(&[0, 12, 0, 1]);
            }
            v
        }
        _ => {
            let n = rng.below(64) as usize;
            rng.bytes(n)
        }
    }
}

/// Well-formed packets with hostile *content* for a DUT that browses `ty` and resolves `host`.
pub fn hostile_content(rng: &mut Rng, ty: &str, host: &str) -> Msg {
    let tyn = Name::from_dotted(ty);
    let hostn = Name::from_dotted(host);
    let mk_inst = |first: Vec<u8>| {
        let mut l = vec![first];
        l.extend(tyn.0.iter().cloned());
        Name(l)
    };
    let mut m = Msg::response();
    match rng.below(10) {
        0 => {
            // label ending in a backslash: merges with the next label when re-encoded from its string form
            let mut first = vec![b'w'; 20 + rng.below(43) as usize];
            first.push(b'\\');
            let mut l = vec![first];
            if rng.bool() {
                // ... and the next label starts with multi-byte characters, so that byte 63 of the merged label can fall
                // inside a character
                let ch = ["é", "漢", "😀"][rng.below(3) as usize];
                l.push(format!("{}x", ch.repeat(1 + rng.below(8) as usize)).into_bytes());
            }
            l.extend(tyn.0.iter().cloned());
            let inst = Name(l);
            m.answers.push(Rec::ptr(&tyn, &inst, 120));
        }
        1 => {
            // label containing dots
            let inst = mk_inst(b"a.b.c.d".to_vec());
            m.answers.push(Rec::ptr(&tyn, &inst, 120));
            m.answers.push(Rec::srv(&inst, &hostn, 1, 120, true));
        }
        2 => {
            // 63-byte label full of backslashes and dots (grows when escaped)
            let first: Vec<u8> = (0..63).map(|i| if i % 2 == 0 { b'\\' } else { b'.' }).collect();
            let inst = mk_inst(first);
            m.answers.push(Rec::ptr(&tyn, &inst, 120));
        }
        3 => {
            // SRV target = owner; PTR loop a -> b -> a
            let a = mk_inst(b"loopa".to_vec());
            let b = mk_inst(b"loopb".to_vec());
            m.answers.push(Rec::ptr(&tyn, &a, 120));
            m.answers.push(Rec::ptr(&a, &b, 120));
            m.answers.push(Rec::ptr(&b, &a, 120));
            m.answers.push(Rec::srv(&a, &a, 1, 120, true));
        }
        4 => {
            // TTL extremes
            let inst = mk_inst(b"ttl".to_vec());
            m.answers.push(Rec::ptr(&tyn, &inst, u32::MAX));
            m.answers.push(Rec::srv(&inst, &hostn, 1, u32::MAX, true));
            m.answers.push(Rec::txt(&inst, vec![0], 0, true));
            m.answers.push(Rec::a(&hostn, [192, 168, 1, 67], u32::MAX, true));
        }
        5 => {
            // many answers of distinct names
            for i in 0..(200 + rng.below(300)) {
                let inst = mk_inst(format!("many{i}").into_bytes());
                m.answers.push(Rec::ptr(&tyn, &inst, 120));
            }
        }
        6 => {
            // non-UTF-8 is rejected by the decoder; multi-byte UTF-8 at label boundaries
            let first = "é".repeat(31).into_bytes(); // 62 bytes
            let inst = mk_inst(first);
            m.answers.push(Rec::ptr(&tyn, &inst, 120));
            m.answers.push(Rec::srv(&inst, &Name::from_dotted("ü.local."), 1, 120, true));
        }
        7 => {
            // hostile TXT
            let inst = mk_inst(b"txt".to_vec());
            m.answers.push(Rec::ptr(&tyn, &inst, 120));
            m.answers.push(Rec::srv(&inst, &hostn, 1, 120, true));
            let n = rng.below(300) as usize;
            m.answers.push(Rec::txt(&inst, rng.bytes(n), 120, true));
            m.answers.push(Rec::a(&hostn, [192, 168, 1, 68], 120, true));
        }
        8 => {
            // empty-label name / root owner
            m.answers.push(Rec::ptr(&Name(vec![]), &Name(vec![]), 120));
            m.answers.push(Rec::a(&Name(vec![]), [1, 2, 3, 4], 120, true));
        }
        _ => {
            // conflicting answers for the host the DUT resolves
            m.answers.push(Rec::a(&hostn, [10, 0, 0, rng.below(255) as u8], rng.below(3) as u32, rng.bool()));
            m.answers.push(Rec::aaaa(&hostn, [0; 16], 1, true));
        }
    }
    m
}

/// The n-th string of the small-alphabet enumeration (all strings up to length `max_len`).
pub const ALPHABET: [u8; 6] = [0x00, 0x01, 0x3F, 0xC0, 0x0C, b'a'];

pub fn enum_count(max_len: usize) -> u64 {
    (0..=max_len).map(|l| 6u64.pow(l as u32)).sum()
}

pub fn enum_string(mut n: u64, max_len: usize) -> Vec<u8> {
    for l in 0..=max_len {
        let c = 6u64.pow(l as u32);
        if n < c {
            let mut v = Vec::with_capacity(l);
            for _ in 0..l {
                v.push(ALPHABET[(n % 6) as usize]);
                n /= 6;
            }
            return v;
        }
        n -= c;
    }
    vec![]
}

/// Small-alphabet string placed after a header announcing one question (even) / one answer (odd).
pub fn enum_packet(n: u64, max_len: usize) -> Vec<u8> {
    let s = enum_string(n / 2, max_len);
    let mut v = if n % 2 == 0 { hdr(0, 1, 0, 0, 0) } else { hdr(0x8400, 0, 1, 0, 0) };
    v.extend_from_slice(&s);
    v
}
