//! Receive model (RX): what a daemon's cache may / must hold, derived from the packets
//! as delivered and the *statement* of the properties (TTL from last arrival, TTL 0 = 1 s,
//! cache-flush one-second rule, verify deadline) — not from the crate's data structures.
//! Three-valued: "possibly live" over-approximates, "definitely live" under-approximates.

use crate::scenario::*;
use crate::trace::*;
use crate::wire::{self, rdata_eq_ci, Name, RData, Rec};

#[derive(Clone, Debug)]
pub struct Arrival {
    pub t: u64,
    pub step: usize,
    pub ttl: u32,
    pub if_index: u32,
    pub flush: bool,
    /// the packet was definitely "for us" when the daemon processed it
    pub certain: bool,
    pub rx: usize,
    pub corrupted: bool,
}

#[derive(Clone, Debug)]
pub struct RecHist {
    pub rec: Rec,
    pub arrivals: Vec<Arrival>,
}

#[derive(Clone, Debug)]
pub struct VerifyEv {
    pub t: u64,
    pub instance: String,
    pub timeout_ms: u64,
}

pub struct RxModel {
    cache: std::cell::RefCell<std::collections::HashMap<(usize, Option<u32>, bool), std::rc::Rc<Vec<(u64, u64)>>>>,
    pub d: usize,
    pub recs: Vec<RecHist>,
    pub verifies: Vec<VerifyEv>,
    /// per DUT: global step index of its n-th step
    pub dut_steps: Vec<usize>,
    pub maybe_packets: u64,
}

#[derive(Clone, Copy, PartialEq, Eq, Debug)]
pub enum Mode {
    /// over-approximation: every delivery may have been accepted
    Possibly,
    /// under-approximation: only deliveries that were certainly accepted count
    Definitely,
}

/// global step index in which DUT d consumed the API call `a`
pub fn consumed_in(dut_steps: &[usize], a: &ApiRes) -> Option<usize> {
    dut_steps.get(a.before_step).copied()
}

pub fn dut_steps(tr: &Trace, d: usize) -> Vec<usize> {
    tr.steps.iter().filter(|s| s.d == d).map(|s| s.idx).collect()
}

/// Search windows: for each browse key the list of (open_step, close_step) in global step indices:
/// a packet read in step s is processed with the search open iff open_step < s <= close_step.
#[derive(Clone, Debug, Default)]
pub struct Window {
    pub key: String,
    pub open_step: usize,
    pub close_step: usize,
    pub open_t: u64,
    pub close_t: u64,
    pub slot: u32,
    pub cache_only: bool,
    /// "" (still open) | "stop" | "replaced" | "shutdown" | "timeout"
    pub closed_by: &'static str,
}

pub fn browse_windows(scn: &Scenario, tr: &Trace, d: usize) -> Vec<Window> {
    let ds = dut_steps(tr, d);
    let mut out: Vec<Window> = vec![];
    let mut open: std::collections::BTreeMap<String, Window> = Default::default();
    let last_step = tr.steps.len() + 1;
    let end_t = tr.stats.sim_ms + 1;
    for a in &tr.api {
        if a.d != d || a.outcome != ApiOutcome::Ok || a.op == usize::MAX {
            continue;
        }
        let Some(step) = consumed_in(&ds, a) else { continue };
        let t = tr.steps[step].t;
        match &scn.ops[a.op].op {
            Op::Browse { ty, slot, .. } | Op::BrowseCache { ty, slot, .. } => {
                let cache_only = matches!(&scn.ops[a.op].op, Op::BrowseCache { .. });
                if let Some(mut w) = open.remove(ty) {
                    w.close_step = step;
                    w.close_t = t;
                    w.closed_by = "replaced";
                    out.push(w);
                }
                open.insert(
                    ty.clone(),
                    Window { key: ty.clone(), open_step: step, close_step: last_step, open_t: t, close_t: end_t, slot: *slot, cache_only, closed_by: "" },
                );
            }
            Op::StopBrowse { ty, .. } => {
                if let Some(mut w) = open.remove(ty) {
                    w.close_step = step;
                    w.close_t = t;
                    w.closed_by = "stop";
                    out.push(w);
                }
            }
            Op::Shutdown { .. } => {
                for (_, mut w) in std::mem::take(&mut open) {
                    w.close_step = step;
                    w.close_t = t;
                    w.closed_by = "shutdown";
                    out.push(w);
                }
            }
            _ => {}
        }
    }
    out.extend(open.into_values());
    out
}

pub fn host_windows(scn: &Scenario, tr: &Trace, d: usize) -> Vec<Window> {
    let ds = dut_steps(tr, d);
    let mut out: Vec<Window> = vec![];
    let mut open: std::collections::BTreeMap<String, (Window, Option<u64>)> = Default::default();
    let last_step = tr.steps.len() + 1;
    let end_t = tr.stats.sim_ms + 1;
    for a in &tr.api {
        if a.d != d || a.outcome != ApiOutcome::Ok || a.op == usize::MAX {
            continue;
        }
        let Some(step) = consumed_in(&ds, a) else { continue };
        let t = tr.steps[step].t;
        match &scn.ops[a.op].op {
            Op::ResolveHost { host, slot, timeout, .. } => {
                let k = host.to_lowercase();
                if let Some((mut w, dl)) = open.remove(&k) {
                    // already ended by its timeout?
                    match dl {
                        Some(dl) if dl <= t => {
                            if let Some(s) = tr.steps.iter().find(|s| s.d == d && s.t >= dl) {
                                w.close_step = s.idx;
                                w.close_t = dl;
                                w.closed_by = "timeout";
                            }
                        }
                        _ => {
                            w.close_step = step;
                            w.close_t = t;
                            w.closed_by = "replaced";
                        }
                    }
                    out.push(w);
                }
                open.insert(
                    k.clone(),
                    (
                        Window { key: k, open_step: step, close_step: last_step, open_t: t, close_t: end_t, slot: *slot, cache_only: false, closed_by: "" },
                        timeout.map(|x| t + x),
                    ),
                );
            }
            Op::StopResolveHost { host, .. } => {
                if let Some((mut w, dl)) = open.remove(&host.to_lowercase()) {
                    match dl {
                        Some(dl) if dl <= t => {
                            if let Some(s) = tr.steps.iter().find(|s| s.d == d && s.t >= dl) {
                                w.close_step = s.idx;
                                w.close_t = dl;
                                w.closed_by = "timeout";
                            }
                        }
                        _ => {
                            w.close_step = step;
                            w.close_t = t;
                            w.closed_by = "stop";
                        }
                    }
                    out.push(w);
                }
            }
            Op::Shutdown { .. } => {
                for (_, (mut w, dl)) in std::mem::take(&mut open) {
                    match dl {
                        Some(dl) if dl <= t => {
                            if let Some(s) = tr.steps.iter().find(|s| s.d == d && s.t >= dl) {
                                w.close_step = s.idx;
                                w.close_t = dl;
                                w.closed_by = "timeout";
                            }
                        }
                        _ => {
                            w.close_step = step;
                            w.close_t = t;
                            w.closed_by = "shutdown";
                        }
                    }
                    out.push(w);
                }
            }
            _ => {}
        }
    }
    for (_, (mut w, dl)) in open {
        if let Some(dl) = dl {
            // closes by timeout: at the first step at or after the deadline
            if let Some(s) = tr.steps.iter().find(|s| s.d == d && s.t >= dl) {
                w.close_step = s.idx;
                w.close_t = dl;
                w.closed_by = "timeout";
            }
        }
        out.push(w);
    }
    out
}

fn accept_unsolicited_at(scn: &Scenario, tr: &Trace, d: usize, ds: &[usize], step: usize) -> bool {
    let mut on = false;
    for a in &tr.api {
        if a.d != d || a.op == usize::MAX || a.outcome != ApiOutcome::Ok {
            continue;
        }
        if let Op::AcceptUnsolicited { on: v, .. } = &scn.ops[a.op].op {
            if let Some(s) = consumed_in(ds, a) {
                if s < step {
                    on = *v;
                }
            }
        }
    }
    on
}

impl RxModel {
    pub fn build(scn: &Scenario, tr: &Trace, d: usize) -> RxModel {
        let ds = dut_steps(tr, d);
        let bw = browse_windows(scn, tr, d);
        let hw = host_windows(scn, tr, d);
        let mut recs: Vec<RecHist> = vec![];
        let mut maybe_packets = 0;
        let mut rxs: Vec<&Rx> = tr.rx.iter().filter(|r| r.d == d && r.step.is_some()).collect();
        rxs.sort_by_key(|r| (r.step.unwrap(), r.id));
        for r in rxs {
            let Some(m) = &r.msg else { continue };
            if !m.is_response() {
                continue;
            }
            if r.bytes.len() > wire::MAX_PKT {
                continue; // truncated by the receive buffer: the crate sees a cut packet
            }
            let step = r.step.unwrap();
            // "for us": statement of C04 — not solely answers to someone else's browse
            let mut has_ptr = false;
            let mut for_us = true;
            for a in &m.answers {
                if a.ty == wire::T_PTR {
                    has_ptr = true;
                    let key = a.name.dotted();
                    if bw.iter().any(|w| w.key == key && w.open_step < step && step <= w.close_step) {
                        for_us = true;
                        break;
                    } else {
                        for_us = false;
                    }
                } else if a.ty == wire::T_A || a.ty == wire::T_AAAA {
                    let key = a.name.dotted().to_lowercase();
                    if hw.iter().any(|w| w.key == key && w.open_step < step && step <= w.close_step) {
                        for_us = true;
                        break;
                    }
                }
            }
            let _ = has_ptr;
            if accept_unsolicited_at(scn, tr, d, &ds, step) {
                for_us = true;
            }
            if !for_us {
                maybe_packets += 1;
            }
            let t = r.t_read.unwrap_or(r.t_arrive);
            for rec in m.all_records() {
                if !matches!(rec.ty, wire::T_PTR | wire::T_SRV | wire::T_TXT | wire::T_A | wire::T_AAAA | wire::T_NSEC) {
                    continue;
                }
                if matches!(rec.rdata, RData::Other(_)) {
                    continue;
                }
                let arr = Arrival {
                    t,
                    step,
                    ttl: rec.ttl,
                    if_index: r.if_index,
                    flush: rec.flush(),
                    certain: for_us && !r.corrupted,
                    rx: r.id,
                    corrupted: r.corrupted,
                };
                if let Some(h) = recs.iter_mut().find(|h| {
                    h.rec.ty == rec.ty && h.rec.cls() == rec.cls() && h.rec.name.eq_ci(&rec.name) && rdata_eq_ci(&h.rec.rdata, &rec.rdata)
                }) {
                    h.arrivals.push(arr);
                } else {
                    recs.push(RecHist { rec: rec.clone(), arrivals: vec![arr] });
                }
            }
        }
        let mut verifies = vec![];
        for a in &tr.api {
            if a.d != d || a.op == usize::MAX || a.outcome != ApiOutcome::Ok {
                continue;
            }
            if let Op::Verify { instance, timeout_ms, .. } = &scn.ops[a.op].op {
                if let Some(s) = consumed_in(&ds, a) {
                    verifies.push(VerifyEv { t: tr.steps[s].t, instance: instance.clone(), timeout_ms: *timeout_ms });
                }
            }
        }
        RxModel { cache: Default::default(), d, recs, verifies, dut_steps: ds, maybe_packets }
    }

    /// End of life of record `idx` as seen at time `t` (None = not in the cache at t), for
    /// arrivals on interface `ifx` only (addresses) or on any interface (None).
    /// Mode::Possibly: latest possible end of life; Mode::Definitely: earliest certain one.
    pub fn end_of_life(&self, idx: usize, t: u64, ifx: Option<u32>, mode: Mode) -> Option<(u64, u64)> {
        self.end_of_life_s(idx, t, usize::MAX, ifx, mode)
    }

    /// As `end_of_life`, but only deliveries read in steps <= `max_step` count.
    pub fn end_of_life_s(&self, idx: usize, t: u64, max_step: usize, ifx: Option<u32>, mode: Mode) -> Option<(u64, u64)> {
        let h = &self.recs[idx];
        let is_addr = matches!(h.rec.ty, wire::T_A | wire::T_AAAA);
        // time-ordered events: own arrivals and sibling flush arrivals
        #[derive(Clone, Copy)]
        enum E {
            Own(u64, u32, bool),
            Flush(u64),
            Verify(u64),
        }
        let mut evs: Vec<(u64, u8, E)> = vec![];
        for a in &h.arrivals {
            if a.t > t || a.step > max_step {
                continue;
            }
            if let Some(i) = ifx {
                if is_addr && a.if_index != i {
                    continue;
                }
            }
            evs.push((a.t, 1, E::Own(a.t, a.ttl, a.certain)));
        }
        for (j, s) in self.recs.iter().enumerate() {
            if j == idx {
                continue;
            }
            if s.rec.ty == h.rec.ty && s.rec.cls() == h.rec.cls() && s.rec.name.eq_ci(&h.rec.name) {
                for a in &s.arrivals {
                    if a.t > t || !a.flush || a.step > max_step {
                        continue;
                    }
                    if is_addr {
                        if let Some(i) = ifx {
                            if a.if_index != i {
                                continue;
                            }
                        } else {
                            // any-interface query on an address: a flush on one interface only displaces
                            // records learned there; be conservative per mode
                            if mode == Mode::Possibly {
                                continue;
                            }
                        }
                    }
                    evs.push((a.t, 0, E::Flush(a.t)));
                }
            }
        }
        // verify deadlines apply to SRV of the instance and addresses of its host
        for v in &self.verifies {
            if v.t > t {
                continue;
            }
            let applies = match h.rec.ty {
                wire::T_SRV => h.rec.name.dotted() == v.instance,
                wire::T_A | wire::T_AAAA => self.recs.iter().any(|s| {
                    s.rec.ty == wire::T_SRV
                        && s.rec.name.dotted() == v.instance
                        && matches!(&s.rec.rdata, RData::Srv { target, .. } if target.eq_ci(&h.rec.name))
                }),
                _ => false,
            };
            if applies {
                evs.push((v.t, 2, E::Verify(v.t + v.timeout_ms)));
            }
        }
        evs.sort_by_key(|e| (e.0, e.1));
        let mut cur: Option<(u64, u64)> = None; // (T, E)
        for (_, _, e) in evs {
            match e {
                E::Own(at, ttl, certain) => {
                    let life = (ttl.max(1) as u64) * 1000;
                    let in_cache = cur.map(|(_, e)| at < e).unwrap_or(false);
                    let accept = match mode {
                        Mode::Possibly => true,
                        Mode::Definitely => certain || in_cache,
                    };
                    if accept {
                        cur = Some((at, at + life));
                    }
                }
                E::Flush(f) => {
                    if let Some((tt, e)) = cur {
                        if f < e {
                            match mode {
                                // displaced only if certainly older than 1 s
                                Mode::Possibly => {
                                    if tt + 1000 < f && e > f + 1000 {
                                        cur = Some((tt, f + 1000));
                                    }
                                }
                                Mode::Definitely => {
                                    if tt + 1000 <= f + 1 && e > f + 1000 {
                                        cur = Some((tt, f + 1000));
                                    }
                                }
                            }
                        }
                    }
                }
                E::Verify(dl) => {
                    // a verify deadline is not one of the exclusions of C03; only the certain
                    // (under-approximating) view is shortened by it
                    if mode == Mode::Possibly {
                        continue;
                    }
                    if let Some((tt, e)) = cur {
                        if dl < e {
                            cur = Some((tt, dl));
                        }
                    }
                }
            }
        }
        cur
    }

    /// Maximal life intervals [start, end) of record `idx` (for addresses: as learned on `ifx`).
    pub fn intervals(&self, idx: usize, ifx: Option<u32>, mode: Mode) -> std::rc::Rc<Vec<(u64, u64)>> {
        let key = (idx, ifx, mode == Mode::Possibly);
        if let Some(v) = self.cache.borrow().get(&key) {
            return v.clone();
        }
        let h = &self.recs[idx];
        let is_addr = matches!(h.rec.ty, wire::T_A | wire::T_AAAA);
        // (time, order, kind, a, b): kind 0 = sibling flush, 1 = own arrival (a = ttl, b = certain), 2 = verify (a = deadline)
        let mut evs: Vec<(u64, u8, u64, bool)> = vec![];
        for a in &h.arrivals {
            if let Some(i) = ifx {
                if is_addr && a.if_index != i {
                    continue;
                }
            }
            evs.push((a.t, 1, a.ttl as u64, a.certain));
        }
        for (j, s) in self.recs.iter().enumerate() {
            if j == idx || s.rec.ty != h.rec.ty || s.rec.cls() != h.rec.cls() || !s.rec.name.eq_ci(&h.rec.name) {
                continue;
            }
            for a in &s.arrivals {
                if !a.flush {
                    continue;
                }
                if is_addr {
                    match ifx {
                        Some(i) => {
                            if a.if_index != i {
                                continue;
                            }
                        }
                        None => {
                            if mode == Mode::Possibly {
                                continue;
                            }
                        }
                    }
                }
                evs.push((a.t, 0, 0, false));
            }
        }
        if mode == Mode::Definitely {
            for v in &self.verifies {
                let applies = match h.rec.ty {
                    wire::T_SRV => h.rec.name.dotted() == v.instance,
                    wire::T_A | wire::T_AAAA => self.recs.iter().any(|s| {
                        s.rec.ty == wire::T_SRV
                            && s.rec.name.dotted() == v.instance
                            && matches!(&s.rec.rdata, RData::Srv { target, .. } if target.eq_ci(&h.rec.name))
                    }),
                    _ => false,
                };
                if applies {
                    evs.push((v.t, 2, v.t + v.timeout_ms, false));
                }
            }
        }
        evs.sort_by_key(|e| (e.0, e.1));
        let mut out: Vec<(u64, u64)> = vec![];
        let mut cur: Option<(u64, u64, u64)> = None; // (start, last arrival, end)
        for (at, kind, a, certain) in evs {
            // close an interval that ended before this event
            if let Some((st, _, e)) = cur {
                if at >= e {
                    out.push((st, e));
                    cur = None;
                }
            }
            match kind {
                1 => {
                    let life = a.max(1) * 1000;
                    let accept = match mode {
                        Mode::Possibly => true,
                        Mode::Definitely => certain || cur.is_some(),
                    };
                    if accept {
                        cur = Some((cur.map(|c| c.0).unwrap_or(at), at, at + life));
                    }
                }
                0 => {
                    if let Some((st, tt, e)) = cur {
                        let old_enough = match mode {
                            Mode::Possibly => tt + 1000 < at,
                            Mode::Definitely => tt + 1000 <= at + 1,
                        };
                        if old_enough && e > at + 1000 {
                            cur = Some((st, tt, at + 1000));
                        }
                    }
                }
                _ => {
                    if let Some((st, tt, e)) = cur {
                        if a < e {
                            cur = Some((st, tt, a.max(at)));
                        }
                    }
                }
            }
        }
        if let Some((st, _, e)) = cur {
            out.push((st, e));
        }
        let rc = std::rc::Rc::new(out);
        self.cache.borrow_mut().insert(key, rc.clone());
        rc
    }

    pub fn live_at(&self, idx: usize, t: u64, ifx: Option<u32>, mode: Mode, slack: u64) -> bool {
        let iv = self.intervals(idx, ifx, mode);
        iv.iter().any(|&(s, e)| s <= t && match mode {
            Mode::Possibly => t < e + slack,
            Mode::Definitely => t + slack < e,
        })
    }

    /// End of the life interval that contains t (or None).
    pub fn life_end(&self, idx: usize, t: u64, ifx: Option<u32>, mode: Mode) -> Option<u64> {
        self.intervals(idx, ifx, mode).iter().find(|&&(s, e)| s <= t && t < e).map(|&(_, e)| e)
    }

    pub fn live_at_s(&self, idx: usize, t: u64, max_step: usize, ifx: Option<u32>, mode: Mode, slack: u64) -> bool {
        match self.end_of_life_s(idx, t, max_step, ifx, mode) {
            Some((_, e)) => match mode {
                Mode::Possibly => t < e + slack,
                Mode::Definitely => t + slack < e,
            },
            None => false,
        }
    }

    pub fn find(&self, name: &Name, ty: u16) -> Vec<usize> {
        self.recs.iter().enumerate().filter(|(_, h)| h.rec.ty == ty && h.rec.name.eq_ci(name)).map(|(i, _)| i).collect()
    }
}
