//! Helpers shared by generators and oracles.

use crate::rng::Rng;
use crate::scenario::*;
use crate::trace::*;
use crate::wire::{self, Msg, Name, RData, Rec};
use std::net::IpAddr;

pub const HUGE_IP_CHECK_SECS: u32 = 4_000_000; // ~46 days: moves the interface poll out of the way

/// A query observed on the wire for one question.
#[derive(Clone, Debug)]
pub struct QObs {
    pub t: u64,
    pub tx: usize,
    pub step: usize,
    pub if_index: Option<u32>,
    pub v4: bool,
    pub n_known: usize,
    pub n_questions: usize,
}

/// All multicast queries of DUT d that contain a question (name, ty), name compared ci.
pub fn queries_for(tr: &Trace, d: usize, name: &Name, ty: u16) -> Vec<QObs> {
    let mut v = vec![];
    for x in tr.tx.iter().filter(|x| x.d == d) {
        let Some(m) = &x.msg else { continue };
        if m.is_response() {
            continue;
        }
        if m.questions.iter().any(|q| q.ty == ty && q.name.eq_ci(name)) {
            v.push(QObs {
                t: x.t,
                tx: x.idx,
                step: x.step,
                if_index: x.if_index,
                v4: x.v4,
                n_known: m.answers.len(),
                n_questions: m.questions.len(),
            });
        }
    }
    v
}

/// (if_index, is_v4) channels of a DUT configuration: one per interface and address family present.
pub fn channels(ifs: &[IfSpec], v4_sock: bool, v6_sock: bool) -> Vec<(u32, bool)> {
    let mut v = vec![];
    for i in ifs {
        if !i.up {
            continue;
        }
        let has4 = i.addrs.iter().any(|a| a.ip.parse::<IpAddr>().map(|x| x.is_ipv4()).unwrap_or(false));
        let has6 = i.addrs.iter().any(|a| a.ip.parse::<IpAddr>().map(|x| x.is_ipv6()).unwrap_or(false));
        if has4 && v4_sock && !v.contains(&(i.index, true)) {
            v.push((i.index, true));
        }
        if has6 && v6_sock && !v.contains(&(i.index, false)) {
            v.push((i.index, false));
        }
    }
    v
}

/// The nominal back-off delays in seconds: 1, 2, 4 ... 2048, then 3600 for ever.
pub fn backoff_delay_s(k: usize) -> u64 {
    if k < 12 {
        1u64 << k
    } else {
        3600
    }
}

/// Random DUT topology: 1..=max_ifs interfaces, each on its own segment (seg = i),
/// v4-only, v6-only or dual.
pub fn random_dut(rng: &mut Rng, host: u8, max_ifs: usize, allow_v6: bool) -> DutCfg {
    let n = 1 + rng.below(max_ifs as u64) as usize;
    let mut ifs = vec![];
    for i in 0..n {
        let kind = if allow_v6 { rng.below(4) } else { 0 };
        let v4 = format!("192.168.{}.{}", 1 + i, host);
        let v6 = format!("fe80::{:x}:{:x}", 1 + i, host);
        let (a4, a6) = match kind {
            0 | 1 => (Some((v4.as_str(), 24u8)), None),
            2 => (Some((v4.as_str(), 24u8)), Some((v6.as_str(), 64u8))),
            _ => (None, Some((v6.as_str(), 64u8))),
        };
        ifs.push(simple_if(&format!("eth{i}"), 2 + i as u32, a4, a6, i));
    }
    DutCfg { ifs, v4: true, v6: true, epoch_off: 0, yields: false }
}

pub fn ty_name(i: u64) -> String {
    const T: [&str; 6] = ["_alpha._udp.local.", "_beta._tcp.local.", "_gamma._udp.local.", "_http._tcp.local.", "_ipp._tcp.local.", "_x-y._udp.local."];
    T[(i % 6) as usize].to_string()
}

pub fn host_name(i: u64) -> String {
    const H: [&str; 5] = ["hosta.local.", "Printer-7.local.", "node-b.local.", "UPPER.local.", "mixedCase.local."];
    H[(i % 5) as usize].to_string()
}

/// Strict profile: no faults, no latency, interface poll moved away.
pub fn strict(s: &mut Scenario) {
    s.net.drop_pm = 0;
    s.net.dup_pm = 0;
    s.net.late_pm = 0;
    s.net.corrupt_pm = 0;
    s.net.jitter_ms = 0;
    s.sched.max_latency = 0;
    s.sched.spurious_pm = 0;
}

pub fn ip4(s: &str) -> [u8; 4] {
    s.parse::<std::net::Ipv4Addr>().map(|a| a.octets()).unwrap_or([0; 4])
}

pub fn ip6(s: &str) -> [u8; 16] {
    s.parse::<std::net::Ipv6Addr>().map(|a| a.octets()).unwrap_or([0; 16])
}

/// The record set a peer advertises for one instance.
#[derive(Clone, Debug)]
pub struct InstanceRecs {
    pub ty: Name,
    pub inst: Name,
    pub host: Name,
    pub ptr: Rec,
    pub srv: Rec,
    pub txt: Rec,
    pub addrs: Vec<Rec>,
}

impl InstanceRecs {
    pub fn all(&self) -> Vec<Rec> {
        let mut v = vec![self.ptr.clone(), self.srv.clone(), self.txt.clone()];
        v.extend(self.addrs.iter().cloned());
        v
    }
}

#[allow(clippy::too_many_arguments)]
pub fn instance_recs(
    ty: &str,
    inst_label: &str,
    host: &str,
    port: u16,
    v4: &[&str],
    v6: &[&str],
    txt: Vec<u8>,
    ttl_other: u32,
    ttl_host: u32,
) -> InstanceRecs {
    let tyn = Name::from_dotted(ty);
    let mut labels = vec![inst_label.as_bytes().to_vec()];
    labels.extend(tyn.0.iter().cloned());
    let inst = Name(labels);
    let hostn = Name::from_dotted(host);
    let mut addrs = vec![];
    for a in v4 {
        addrs.push(Rec::a(&hostn, ip4(a), ttl_host, true));
    }
    for a in v6 {
        addrs.push(Rec::aaaa(&hostn, ip6(a), ttl_host, true));
    }
    InstanceRecs {
        ptr: Rec::ptr(&tyn, &inst, ttl_other),
        srv: Rec::srv(&inst, &hostn, port, ttl_host, true),
        txt: Rec::txt(&inst, txt, ttl_other, true),
        addrs,
        ty: tyn,
        inst,
        host: hostn,
    }
}

pub fn announce(recs: &[Rec]) -> Msg {
    let mut m = Msg::response();
    for r in recs {
        m.answers.push(r.clone());
    }
    m
}

pub fn goodbye(recs: &[Rec]) -> Msg {
    let mut m = Msg::response();
    for r in recs {
        m.answers.push(r.with_ttl(0));
    }
    m
}

/// Responses of DUT d (multicast or unicast).
pub fn responses_of(tr: &Trace, d: usize) -> impl Iterator<Item = (&Tx, &Msg)> {
    tr.tx.iter().filter(move |x| x.d == d).filter_map(|x| x.msg.as_ref().map(|m| (x, m))).filter(|(_, m)| m.is_response())
}

pub fn rec_is(r: &Rec, name: &Name, ty: u16) -> bool {
    r.ty == ty && r.name.eq_ci(name)
}

pub fn ptr_target(r: &Rec) -> Option<&Name> {
    match &r.rdata {
        RData::Ptr(n) => Some(n),
        _ => None,
    }
}

pub fn srv_target(r: &Rec) -> Option<(&Name, u16)> {
    match &r.rdata {
        RData::Srv { target, port, .. } => Some((target, *port)),
        _ => None,
    }
}

pub fn rec_ip(r: &Rec) -> Option<IpAddr> {
    match &r.rdata {
        RData::A(a) => Some(IpAddr::from(*a)),
        RData::AAAA(a) => Some(IpAddr::from(*a)),
        _ => None,
    }
}

/// Time at which op `idx` was executed, and the first step of DUT d at or after it.
pub fn op_time(tr: &Trace, idx: usize) -> Option<u64> {
    tr.op_times.get(idx).copied().flatten()
}

/// The step (index into tr.steps) in which DUT d consumed a command issued at time t
/// (the first step of d that started at or after t, by step order after the API call).
pub fn consuming_step(tr: &Trace, d: usize, before_step: usize) -> Option<&Step> {
    tr.steps.iter().filter(|s| s.d == d).nth(before_step)
}

pub fn api_of_op(tr: &Trace, op: usize) -> Option<&ApiRes> {
    tr.api.iter().find(|a| a.op == op)
}

pub fn wire_ty(t: u16) -> &'static str {
    wire::ty_name(t)
}

pub fn daemon_alive_at_end(tr: &Trace, d: usize) -> bool {
    tr.final_phase.get(d).map(|s| s == "parked").unwrap_or(false)
}

/// The start jitter the daemon of DUT d draws for a registration consumed at (world) time t.
pub fn jitter_at(scn: &Scenario, d: usize, t: u64) -> u64 {
    if let Some(seed) = scn.sched.jitter_time_seed {
        let off = scn.duts.get(d).map(|c| c.epoch_off).unwrap_or(0);
        let now = (crate::world::T0 as i64 + t as i64 + off) as u64;
        return crate::rng::mix(seed, now) % 250;
    }
    scn.params.get("jitter").and_then(|v| v.as_u64()).unwrap_or(0)
}
