//! C01 — decoding any datagram is safe, terminating and bounded.
//!
//! Hostile datagrams reach a busy DUT only through the simulated receive path (seam ->
//! real handle_read -> DnsIncoming::new). R1-R3 and R5 are decided by the simulation proper
//! (fault in the transport, effect at the node); R4 is a differential oracle over the same
//! bytes through the decode facade.

use super::common::*;
use super::mallory;
use super::{Judged, Property, Tier};
use crate::rng::{mix, Rng};
use crate::scenario::*;
use crate::trace::*;
use crate::wire::{self, Name, RData};
use mdns_sd::verif::codec;

pub struct C01;

const BATCH: u64 = 150;
const T_FIRST: u64 = 3000;
const GAP: u64 = 7;

fn sane_svc(k: u64) -> SvcSpec {
    SvcSpec { ty: "_sane._tcp.local.".into(), instance: format!("sane{k}"), host: format!("sanehost{k}.local."), addrs: vec!["192.168.1.10".into()], port: 7000 + k as u16, txt: vec![("k".into(), Some(b"v".to_vec()))], addr_auto: false, probe: false, intfs: None, link_local_only: false, txt_via: None }
}

pub fn busy_dut(s: &mut Scenario, rng: &mut Rng) {
    s.duts.push(dut_dual(1, 10, 0));
    s.peers.push(peer_dual(1, 66, 0));
    s.op(0, Op::SetIpCheck { d: 0, secs: HUGE_IP_CHECK_SECS });
    s.op(0, Op::Monitor { d: 0, slot: 1 });
    s.op(10, Op::Browse { d: 0, ty: "_mal._tcp.local.".into(), slot: 10 });
    s.op(20, Op::Browse { d: 0, ty: "_sub1._sub._mal._tcp.local.".into(), slot: 11 });
    s.op(30, Op::ResolveHost { d: 0, host: "malhost.local.".into(), timeout: None, slot: 12 });
    if rng.bool() {
        s.op(40, Op::AcceptUnsolicited { d: 0, on: true });
    }
    s.op(50, Op::Register { d: 0, svc: sane_svc(0) });
    s.op(60, Op::Register { d: 0, svc: sane_svc(1) });
}

/// The follow-up exchange that shows the daemon still serves (R5, shared with C15).
pub fn follow_up(s: &mut Scenario, t: u64) {
    let ty = Name::from_dotted("_sane._tcp.local.");
    let q = wire::Msg::query().q(&ty, wire::T_PTR);
    s.op(t, Op::PeerSend { p: 0, v4: true, sport: 5353, msg: q, to: Dest::Mcast });
    let ir = instance_recs("_mal._tcp.local.", "proof-of-life", "plhost.local.", 99, &["192.168.1.66"], &[], vec![0], 120, 120);
    s.op(t + 50, Op::PeerSend { p: 0, v4: true, sport: 5353, msg: announce(&ir.all()), to: Dest::Mcast });
    s.op(t + 100, Op::Status { d: 0, slot: 97 });
    s.op(t + 110, Op::Register { d: 0, svc: sane_svc(5) });
}

pub fn judge_follow_up(j: &mut Judged, rule: &str, scn: &Scenario, tr: &Trace) {
    // only if the daemon did not die (death is reported by its own rule)
    if tr.fatal.iter().any(|f| matches!(f.kind.as_str(), "panic" | "hang" | "exit")) {
        return;
    }
    let Some((qi, _)) = scn.ops.iter().enumerate().find(|(_, o)| matches!(&o.op, Op::PeerSend { msg, sport: 5353, .. } if msg.is_query() && msg.answers.is_empty() && msg.questions.len() == 1 && msg.questions[0].ty == wire::T_PTR && msg.questions[0].name.dotted() == "_sane._tcp.local.")) else { return };
    let Some(tq) = op_time(tr, qi) else { return };
    // each sub-check needs its set-up to be part of the (possibly minimised) scenario
    let has_reg = |inst: &str| scn.ops.iter().enumerate().any(|(i, o)| matches!(&o.op, Op::Register { svc, .. } if svc.instance == inst) && api_of_op(tr, i).map(|a| a.outcome == ApiOutcome::Ok).unwrap_or(false));
    let has_browse = scn.ops.iter().any(|o| matches!(&o.op, Op::Browse { slot: 10, ty, .. } if ty == "_mal._tcp.local."));
    let has_status = scn.ops.iter().any(|o| matches!(&o.op, Op::Status { slot: 97, .. }));
    let has_proof = scn.ops.iter().any(|o| matches!(&o.op, Op::PeerSend { msg, .. } if msg.answers.iter().any(|r| r.name.dotted().starts_with("proof-of-life."))));
    let unregistered = scn.ops.iter().any(|o| matches!(&o.op, Op::Unregister { .. } | Op::DisableIf { .. } | Op::StopBrowse { .. } | Op::Shutdown { .. }));
    if unregistered || !has_reg("sane0") || tq < 1500 {
        return;
    }
    j.judgements += 1;
    let answered = tr.tx.iter().any(|x| x.t >= tq && x.t <= tq + 20 && x.msg.as_ref().map(|m| m.is_response() && m.answers.iter().any(|r| r.ty == wire::T_PTR && r.name.dotted() == "_sane._tcp.local.")).unwrap_or(false));
    if !answered {
        j.fail(rule, format!("after the hostile input the daemon no longer answers a PTR query for its registered type (query at t={tq})"));
    }
    let found = tr.events.iter().any(|e| e.slot == 10 && matches!(&e.ev, EvKind::Found(_, i) if i.starts_with("proof-of-life.")));
    if !found && has_browse && has_proof {
        j.fail(rule, "after the hostile input a fresh announcement for the browsed type is no longer reported (no ServiceFound for proof-of-life)".to_string());
    }
    if has_status && !tr.events.iter().any(|e| e.slot == 97 && matches!(e.ev, EvKind::StatusRunning)) {
        j.fail(rule, "after the hostile input status() does not yield Running".to_string());
    }
    let reg_ok = tr.tx.iter().any(|x| x.msg.as_ref().map(|m| m.is_response() && m.answers.iter().any(|r| matches!(&r.rdata, RData::Srv { port, .. } if *port == 7005))).unwrap_or(false));
    if !reg_ok && has_reg("sane5") {
        j.fail(rule, "after the hostile input a fresh registration is not announced".to_string());
    }
}

impl Property for C01 {
    fn id(&self) -> &'static str {
        "C01"
    }
    fn count(&self, tier: Tier) -> u64 {
        // enumeration worlds first, then seeded worlds
        let en = mallory::enum_count(match tier {
            Tier::Quick => 5,
            Tier::Thorough => 7,
        }) * 2;
        en.div_ceil(BATCH)
            + match tier {
                Tier::Quick => 250,
                Tier::Thorough => 20_000,
            }
    }
    fn exhaustive_part(&self, tier: Tier) -> Option<&'static str> {
        match tier {
            Tier::Quick => Some("every string up to length 5 over {00, 01, 3F, C0, 0C, 'a'} after a header announcing one question / one answer (18 662 datagrams)"),
            Tier::Thorough => Some("every string up to length 7 over {00, 01, 3F, C0, 0C, 'a'} after a header announcing one question / one answer (671 846 datagrams)"),
        }
    }
    fn rule_text(&self) -> &'static str {
        "a DUT with two browses (one subtype), a hostname search, two registered services and (half of the worlds) accept_unsolicited receives 150 datagrams per world, one per loop iteration, through the simulated socket: (a) bit / byte / truncation / extension / count-rewrite / pointer-insertion / splice mutations of valid responses about the names it cares for, (b) grammar packets (pointers into the header, self and mutual pointers, cycles through RDATA, chains of hundreds of pointers, names beyond 255 bytes, RDLENGTH 0 / short / long / 65535 for every dispatched type, zero-length HINFO at the end, reserved label types, huge section counts, hundreds of tiny records), (c) the complete small-alphabet enumeration, (d) random bytes of length 0..9000 incl. > 8972 (receive-buffer truncation). Rules: R1 no panic; R2 every step ends (watchdog); R3 bytes allocated by the daemon thread in the step <= 512 KiB + 256 x length (whatever the section counts announce); R4 what the crate's decoder returns for the same bytes agrees record by record with a lenient independent parser and no name is longer than the datagram; R5 a follow-up exchange is still served. Non-trivial = a datagram whose decode got past the header (the crate returned a message, or an error other than a short header); distinct = distinct (length class, outcome, record types reached) tuples plus schedule signature."
    }
    fn assumptions(&self) -> Vec<&'static str> {
        vec![
            "time proportional to size is decided only as 'terminates within the watchdog and allocation is linear'; CPU cost is not measured",
            "R4 is a differential, seeded-input oracle over the datagrams the run produced, not a scheduling property",
        ]
    }
    fn expected_probes(&self) -> Vec<&'static str> {
        vec!["decoded-ok", "decode-error", "truncated-by-receive-buffer", "pointer-seen", "family:enum", "family:mutation", "family:grammar", "family:random"]
    }

    fn gen(&self, seed: u64, index: u64, tier: Tier) -> Scenario {
        let rs = mix(seed, index);
        let mut rng = Rng::new(rs, 0x01);
        let max_len = match tier {
            Tier::Quick => 5,
            Tier::Thorough => 7,
        };
        let en_total = mallory::enum_count(max_len) * 2;
        let en_worlds = en_total.div_ceil(BATCH);
        let mut s = Scenario::new("C01", "", rs);
        strict(&mut s);
        s.sched.one_per_step = true;
        s.net.self_loop = false;
        busy_dut(&mut s, &mut rng);
        let fam;
        let mut t = T_FIRST;
        if index < en_worlds {
            fam = "enum";
            for k in 0..BATCH {
                let n = index * BATCH + k;
                if n >= en_total {
                    break;
                }
                let b = mallory::enum_packet(n, max_len);
                s.op(t, Op::PeerRaw { p: 0, v4: true, sport: 5353, hex: wire::hex(&b), to: Dest::Mcast });
                t += GAP;
            }
        } else {
            let which = (index - en_worlds) % 3;
            fam = ["mutation", "grammar", "random"][which as usize];
            for _ in 0..BATCH {
                let b = match which {
                    0 => {
                        let ty = if rng.bool() { "_mal._tcp.local." } else { "_sub1._sub._mal._tcp.local." };
                        let base = mallory::valid_base(&mut rng, ty, "malhost.local.").encode();
                        mallory::mutate(&mut rng, base)
                    }
                    1 => {
                        let g = mallory::grammar(&mut rng);
                        if rng.below(4) == 0 { mallory::mutate(&mut rng, g) } else { g }
                    }
                    _ => {
                        let n = match rng.below(6) {
                            0 => rng.below(13),
                            1 => 8960 + rng.below(60),
                            2 => 12 + rng.below(20),
                            _ => rng.below(600),
                        } as usize;
                        let mut b = rng.bytes(n);
                        if b.len() >= 12 && rng.bool() {
                            // plausible header so that the body gets decoded
                            b[2] = 0x84;
                            b[3] = 0;
                            for i in 4..12 {
                                b[i] = if i % 2 == 1 { rng.below(4) as u8 } else { 0 };
                            }
                        }
                        b
                    }
                };
                s.op(t, Op::PeerRaw { p: 0, v4: rng.below(4) != 0, sport: 5353, hex: wire::hex(&b), to: Dest::Mcast });
                t += GAP;
            }
        }
        s.family = fam.to_string();
        follow_up(&mut s, t + 500);
        s.horizon_ms = t + 3000;
        s.max_steps = 10_000;
        s.sort_ops();
        s
    }

    fn judge(&self, scn: &Scenario, tr: &Trace) -> Judged {
        let mut j = Judged::default();
        j.probe(&format!("family:{}", scn.family));
        let d = 0;
        // R1 / R2
        for f in &tr.fatal {
            let culprit = tr.rx.iter().filter(|r| r.d == d && r.step.is_some() && matches!(r.src, Src::Peer(_))).last().map(|r| wire::hex(&r.bytes[..r.bytes.len().min(120)])).unwrap_or_default();
            // the datagram that was being read when the step died: the first unread hostile one
            let pending = tr.rx.iter().find(|r| r.d == d && r.step.is_none() && matches!(r.src, Src::Peer(_)) && r.t_arrive <= f.t).map(|r| wire::hex(&r.bytes[..r.bytes.len().min(120)])).unwrap_or(culprit);
            match f.kind.as_str() {
                "panic" => j.fail("C01-R1", format!("the daemon thread panicked while handling a datagram at t={}: {} | datagram (first bytes): {}", f.t, f.detail, pending)),
                "hang" => j.fail("C01-R2", format!("decoding did not terminate within the watchdog at t={} | datagram (first bytes): {}", f.t, pending)),
                "exit" => j.fail("C01-R1", format!("the daemon thread ended at t={}: {}", f.t, f.detail)),
                _ => {}
            }
        }
        let dead = tr.fatal.iter().any(|f| matches!(f.kind.as_str(), "panic" | "hang" | "exit"));
        // per datagram
        for r in tr.rx.iter().filter(|r| r.d == d && matches!(r.src, Src::Peer(_))) {
            let Some(step) = r.step else { continue };
            let st = &tr.steps[step];
            let len = r.bytes.len().min(wire::MAX_PKT);
            if r.bytes.len() > wire::MAX_PKT {
                j.probe("truncated-by-receive-buffer");
            }
            j.judgements += 1;
            // R3: allocation bound
            let announced: u64 = if len >= 12 { (4..12).step_by(2).map(|i| u16::from_be_bytes([r.bytes[i], r.bytes[i + 1]]) as u64).sum() } else { 0 };
            let recs = announced.min(len as u64 / 11 + 1);
            // proportional to the datagram, not to the counts it announces: 512 KiB for the receive buffer and the work
            // of one loop iteration, plus 256 bytes per byte received
            let _ = recs;
            let bound = 512 * 1024 + 256 * len as u64;
            if st.n_rx == 1 && st.alloc_bytes > bound {
                j.fail("C01-R3", format!("handling a {}-byte datagram (announcing {} entries) allocated {} bytes (bound {}) at t={} | first bytes {}", len, announced, st.alloc_bytes, bound, st.t, wire::hex(&r.bytes[..len.min(60)])));
            }
            if dead {
                continue;
            }
            // R4: differential decode of the same bytes
            let bytes = r.bytes[..len].to_vec();
            let crate_view = codec::decode(bytes.clone());
            match &crate_view {
                Err(e) => {
                    j.probe("decode-error");
                    if !e.contains("header is too short") {
                        j.nontrivial = true;
                    }
                }
                Ok(v) => {
                    j.probe("decoded-ok");
                    j.nontrivial = true;
                    match wire::parse_info(&bytes) {
                        Err(e) => {
                            j.fail("C01-R4", format!("the crate decoded a message from bytes the lenient reference parser cannot read ({e}): {}", wire::hex(&bytes[..bytes.len().min(100)])));
                        }
                        Ok((m, info)) => {
                            if info.pointers > 0 {
                                j.probe("pointer-seen");
                            }
                            let is_resp = v.flags & 0x8000 != 0;
                            let cmp = |sec: &str, a: &Vec<codec::RecordView>, b: &Vec<wire::Rec>, j: &mut Judged| {
                                // the crate skips unknown types; the reference keeps them as Other
                                let b: Vec<&wire::Rec> = b.iter().filter(|x| matches!(x.ty, wire::T_A | wire::T_AAAA | wire::T_PTR | wire::T_CNAME | wire::T_SRV | wire::T_TXT | wire::T_HINFO | wire::T_NSEC)).collect();
                                if a.len() != b.len() {
                                    j.fail("C01-R4", format!("{sec}: the crate returned {} records, the reference parser finds {} of the types it decodes: {}", a.len(), b.len(), wire::hex(&bytes[..bytes.len().min(100)])));
                                    return;
                                }
                                for (x, y) in a.iter().zip(b.iter()) {
                                    let ttl_y = if y.ttl == 0 && is_resp { 1 } else { y.ttl };
                                    let same_head = x.name == y.name.dotted() && x.ty == y.ty && x.class == (y.class & 0x7FFF) && x.cache_flush == (y.class & 0x8000 != 0) && x.ttl == ttl_y;
                                    let same_data = match (&x.rdata, &y.rdata) {
                                        (codec::RDataView::Addr(ip), RData::A(b4)) => *ip == std::net::IpAddr::from(*b4),
                                        (codec::RDataView::Addr(ip), RData::AAAA(b6)) => *ip == std::net::IpAddr::from(*b6),
                                        (codec::RDataView::Ptr(s), RData::Ptr(n)) => *s == n.dotted(),
                                        (codec::RDataView::Srv { priority, weight, port, host }, RData::Srv { prio, weight: w2, port: p2, target }) => priority == prio && weight == w2 && port == p2 && *host == target.dotted(),
                                        (codec::RDataView::Txt(t), RData::Txt(t2)) => t == t2,
                                        (codec::RDataView::HInfo { cpu, os }, RData::Hinfo { cpu: c2, os: o2 }) => cpu.as_bytes() == &c2[..] && os.as_bytes() == &o2[..],
                                        (codec::RDataView::NSec { next_domain, type_bitmap }, RData::Nsec { next, bitmap }) => *next_domain == next.dotted() && bitmap.len() >= 2 && type_bitmap[..] == bitmap[2..],
                                        _ => false,
                                    };
                                    if !same_head || !same_data {
                                        j.fail("C01-R4", format!("{sec}: the crate decoded {:?} where the bytes hold {:?}: {}", x, y, wire::hex(&bytes[..bytes.len().min(100)])));
                                        return;
                                    }
                                    if x.name.len() > bytes.len() {
                                        j.fail("C01-R4", format!("decoded name of {} bytes from a datagram of {} bytes", x.name.len(), bytes.len()));
                                    }
                                }
                            };
                            if v.questions.len() != m.questions.len() || v.questions.iter().zip(m.questions.iter()).any(|(a, b)| a.0 != b.name.dotted() || a.1 != b.ty) {
                                j.fail("C01-R4", format!("questions differ: crate {:?} vs reference {:?}", v.questions, m.questions));
                            }
                            cmp("answers", &v.answers, &m.answers, &mut j);
                            cmp("authorities", &v.authorities, &m.authorities, &mut j);
                            cmp("additionals", &v.additionals, &m.additionals, &mut j);
                        }
                    }
                }
            }
        }
        // R5
        judge_follow_up(&mut j, "C01-R5", scn, tr);
        j
    }
}
