//! Responder-side worlds: one DUT registering / re-registering / unregistering services
//! on 1-3 interfaces while a peer per segment injects queries. Shared by C06 (answers),
//! C07 (probing and announcing), C09 (goodbyes) and C10 (known-answer suppression).

use super::common::*;
use super::txmodel::*;
use super::{Judged, Property, Tier};
use crate::rng::{mix, Rng};
use crate::scenario::*;
use crate::trace::*;
use crate::wire::{self, Msg, Name, Question, Rec};
use serde_json::json;
use std::net::IpAddr;

#[derive(Clone, Copy, PartialEq, Eq)]
pub enum Flavor {
    C06,
    C07,
    C09,
    C10,
}

const JGRID: [u64; 8] = [0, 1, 62, 124, 125, 187, 248, 249];
const INST: [&str; 7] = ["inst", "My Service", "UPPER", "dev-1", "Caf\u{e9}", "x", "Dot.ted"];
const HOSTS: [&str; 5] = ["hosta.local.", "MyHost.local.", "node-7.local.", "UP.local.", "h.local."];
const TYPES: [&str; 5] = ["_http._tcp.local.", "_alpha._udp.local.", "_printer._sub._http._tcp.local.", "_x-y._udp.local.", "_ipp._tcp.local."];

fn mixcase(rng: &mut Rng, s: &str) -> String {
    match rng.below(4) {
        0 => s.to_string(),
        1 => s.to_uppercase().replace(".LOCAL.", ".local.").replace("._TCP", "._tcp").replace("._UDP", "._udp"),
        2 => s.to_lowercase(),
        _ => s.chars().enumerate().map(|(i, c)| if i % 2 == 0 { c.to_ascii_uppercase() } else { c.to_ascii_lowercase() }).collect::<String>().replace(".LoCaL.", ".local.").replace(".lOcAl.", ".local."),
    }
}

/// Case variants that keep the ".local." / "._tcp.local." suffix untouched (the API requires it).
fn case_variant_name(rng: &mut Rng, n: &Name) -> Name {
    let mode = rng.below(4);
    Name(
        n.0.iter()
            .map(|l| match mode {
                0 => l.clone(),
                1 => l.to_ascii_uppercase(),
                2 => l.to_ascii_lowercase(),
                _ => l.iter().enumerate().map(|(i, c)| if i % 2 == 0 { c.to_ascii_uppercase() } else { c.to_ascii_lowercase() }).collect(),
            })
            .collect(),
    )
}

pub fn gen_world(prop: &str, flavor: Flavor, seed: u64, index: u64, tier: Tier) -> Scenario {
    let rs = mix(seed, index);
    let mut rng = Rng::new(rs, 0x7E5);
    let profile = match (flavor, index % 6) {
        (Flavor::C07, 4) => "latency",
        (Flavor::C07, 5) => "stall",
        (_, 5) => "latency",
        _ => "strict",
    };
    let mut s = Scenario::new(prop, profile, rs);
    strict(&mut s);
    if profile == "latency" {
        s.sched.max_latency = [5, 20, 60][rng.below(3) as usize];
        s.sched.one_per_step = rng.bool();
    }
    s.net.self_loop = rng.below(4) != 0;
    let dut = random_dut(&mut rng, 10, 3, true);
    let ifs = dut.ifs.clone();
    s.duts.push(dut);
    s.op(0, Op::SetIpCheck { d: 0, secs: HUGE_IP_CHECK_SECS });
    s.op(0, Op::Monitor { d: 0, slot: 1 });
    // constant jitter for this run (quick: grid; thorough: any value)
    let j = match tier {
        Tier::Quick => JGRID[(index / 6 % 8) as usize],
        Tier::Thorough => (index / 6) % 250,
    };
    if index % 2 == 1 {
        // jitter as a function of the registration time: different registrations draw different values
        s.sched.jitter_time_seed = Some(mix(rs, 0x717));
    } else {
        s.sched.jitter = vec![vec![j; 4096]];
    }
    // a querier peer per segment
    for (k, i) in ifs.iter().enumerate() {
        let has4 = i.addrs.iter().any(|a| a.ip.contains('.'));
        let has6 = i.addrs.iter().any(|a| a.ip.contains(':'));
        s.peers.push(PeerCfg {
            seg: i.seg,
            v4: if has4 { Some(format!("192.168.{}.77", 1 + k)) } else { None },
            v6: if has6 { Some(format!("fe80::{:x}:77", 1 + k)) } else { None },
            responder: None,
        });
    }
    // services
    let n_svc = 1 + rng.below(3) as usize;
    let mut specs: Vec<(u64, SvcSpec)> = vec![];
    let mut t_reg = 100 + rng.below(400);
    for k in 0..n_svc {
        let ty = TYPES[rng.below(5) as usize].to_string();
        let inst = format!("{}{}", INST[rng.below(7) as usize], k);
        let share = k > 0 && rng.below(3) == 0;
        let host = if share { specs[0].1.host.clone() } else { format!("{}{}{}", ["", "b", "C"][rng.below(3) as usize], k, HOSTS[rng.below(5) as usize]) };
        // addresses: per interface, usually the interface's own addresses
        let mut addrs = vec![];
        for i in &ifs {
            for a in &i.addrs {
                if rng.below(5) != 0 {
                    addrs.push(a.ip.clone());
                }
            }
        }
        if rng.below(4) == 0 {
            addrs.push("10.9.9.9".into());
        }
        if rng.below(6) == 0 {
            if let Some(i) = ifs.first() {
                if let Some(a) = i.addrs.iter().find(|a| a.ip.contains('.')) {
                    let mut o: Vec<String> = a.ip.split('.').map(|x| x.to_string()).collect();
                    o[3] = "200".into();
                    addrs.push(o.join("."));
                }
            }
        }
        if addrs.is_empty() {
            addrs.push(ifs[0].addrs[0].ip.clone());
        }
        if share {
            // a shared host name has one address set (different sets make the daemon conflict with its own
            // answers through multicast loop-back; conflict behaviour is C08's subject)
            addrs = specs[0].1.addrs.clone();
        }
        let txt = match rng.below(3) {
            0 => vec![],
            1 => vec![("path".to_string(), Some(b"/x".to_vec()))],
            _ => vec![("A".to_string(), Some(b"1".to_vec())), ("flag".to_string(), None), ("e".to_string(), Some(vec![]))],
        };
        let probe = if share { specs[0].1.probe } else { rng.below(6) != 0 };
        let spec = SvcSpec { ty, instance: inst, host, addrs, port: 1000 + rng.below(60000) as u16, txt, addr_auto: false, probe, intfs: None, link_local_only: false, txt_via: None };
        s.op(t_reg, Op::Register { d: 0, svc: spec.clone() });
        specs.push((t_reg, spec));
        // next registration: before / during / after the probing of this one
        t_reg += [3, 120, 400, 760, 1300, 2500][rng.below(6) as usize] + rng.below(50);
    }
    let mut t_end = t_reg + 3000;
    // re-registration with changed port / TXT
    if rng.below(4) == 0 {
        let (t0, sp) = specs[rng.below(specs.len() as u64) as usize].clone();
        let mut sp2 = sp.clone();
        let t = t0 + [100, 500, 800, 1200, 2500, 4000][rng.below(6) as usize];
        // what changes: port and TXT, only the TXT, or only the port (chosen from the time, not from the PRNG)
        if t0 % 3 != 1 {
            sp2.port = sp.port.wrapping_add(1);
        }
        if t0 % 3 != 2 {
            sp2.txt.push(("v".into(), Some(b"2".to_vec())));
        }
        s.op(t, Op::Register { d: 0, svc: sp2 });
        t_end = t_end.max(t + 3000);
    }
    // unregister: exact / other case / unknown / twice / during probing / between announcements
    let n_unreg = match flavor {
        Flavor::C09 => 1 + rng.below(3),
        _ => rng.below(2),
    };
    let mut slot = 20;
    for _ in 0..n_unreg {
        let (t0, sp) = specs[rng.below(specs.len() as u64) as usize].clone();
        let full = fullname_of(&sp).escaped();
        let name = match rng.below(6) {
            0 => full.to_uppercase().replace(".LOCAL.", ".local."),
            1 => format!("nosuch.{}", split_sub(&sp.ty).0),
            2 => full.to_lowercase(),
            _ => full.clone(),
        };
        let t = t0 + [5, 300, 600, 760, 900, 1500, 1760, 2500, 5000][rng.below(9) as usize] + rng.below(40);
        s.op(t, Op::Unregister { d: 0, fullname: name.clone(), slot });
        slot += 1;
        if rng.below(4) == 0 {
            s.op(t + [0, 50, 120, 500][rng.below(4) as usize], Op::Unregister { d: 0, fullname: name, slot });
            slot += 1;
        }
        t_end = t_end.max(t + 2000);
    }
    // C09: an interface that is disabled from the start and enabled after the registrations: the services are
    // never announced there, so nothing may be withdrawn there either
    if flavor == Flavor::C09 && ifs.len() >= 2 && rng.below(3) == 0 {
        let name = ifs[1].name.clone();
        s.op(0, Op::DisableIf { d: 0, kinds: vec![IfKindSpec::Name(name.clone())] });
        s.op(t_reg + rng.below(1500), Op::EnableIf { d: 0, kinds: vec![IfKindSpec::Name(name)] });
    }
    // queries
    let n_q = match flavor {
        Flavor::C06 | Flavor::C10 => 20 + rng.below(30),
        _ => 4 + rng.below(8),
    };
    let mut qtimes: Vec<u64> = vec![];
    for _ in 0..n_q {
        let mut t = rng.below(t_end + 500);
        t -= t % 7; // keep queries at least a few ms apart
        if qtimes.contains(&t) {
            continue;
        }
        qtimes.push(t);
        let p = rng.below(s.peers.len() as u64) as usize;
        let peer = &s.peers[p];
        let v4 = if peer.v4.is_some() && peer.v6.is_some() { rng.bool() } else { peer.v4.is_some() };
        let legacy = rng.below(5) == 0;
        let sport = if legacy { 40000 + rng.below(20000) as u16 } else { 5353 };
        let n_questions = 1 + [0, 0, 0, 1, 2, 3][rng.below(6) as usize];
        let mut m = Msg::query();
        m.id = if legacy { 1 + rng.below(65000) as u16 } else { [0u16, 0, 7][rng.below(3) as usize] };
        for _ in 0..n_questions {
            let (_, sp) = &specs[rng.below(specs.len() as u64) as usize];
            let full = fullname_of(sp);
            let (base, sub) = split_sub(&sp.ty);
            let hostn = Name::from_dotted(&sp.host);
            let q = match rng.below(14) {
                0 | 1 => Question { name: Name::from_dotted(&base), ty: wire::T_PTR, class: 1 },
                2 => Question { name: Name::from_dotted(sub.as_deref().unwrap_or(&base)), ty: wire::T_PTR, class: 1 },
                3 => Question { name: Name::from_dotted(META), ty: wire::T_PTR, class: 1 },
                4 => Question { name: case_variant_name(&mut rng, &full), ty: wire::T_SRV, class: 1 },
                5 => Question { name: case_variant_name(&mut rng, &full), ty: wire::T_TXT, class: 1 },
                6 => Question { name: case_variant_name(&mut rng, &full), ty: wire::T_ANY, class: 1 },
                7 => Question { name: case_variant_name(&mut rng, &hostn), ty: wire::T_A, class: 1 },
                8 => Question { name: case_variant_name(&mut rng, &hostn), ty: wire::T_AAAA, class: 1 },
                9 => Question { name: case_variant_name(&mut rng, &hostn), ty: wire::T_ANY, class: 1 },
                10 => Question { name: Name::from_dotted("_other._tcp.local."), ty: wire::T_PTR, class: 1 },
                11 => Question { name: Name::from_dotted(&format!("x{}", full.escaped())), ty: wire::T_SRV, class: 1 },
                12 => Question { name: Name::from_dotted(&format!("{}x.local.", sp.host.trim_end_matches(".local."))), ty: wire::T_A, class: 1 },
                _ => Question { name: full.clone(), ty: wire::T_NSEC, class: 1 },
            };
            m.questions.push(q);
        }
        if flavor == Flavor::C10 {
            // known answers: subsets of what the service would answer, TTLs around the half-TTL boundary
            let (_, sp) = &specs[rng.below(specs.len() as u64) as usize];
            let full = fullname_of(sp);
            let (base, _) = split_sub(&sp.ty);
            let hostn = Name::from_dotted(&sp.host);
            let pick_ttl = |rng: &mut Rng, full_ttl: u32| -> u32 {
                let h = full_ttl / 2;
                [0, 1, h - 1, h, h + 1, full_ttl, u32::MAX][rng.below(7) as usize]
            };
            if rng.below(4) != 0 {
                let mut r = Rec::ptr(&Name::from_dotted(&base), &full, 0);
                r.ttl = pick_ttl(&mut rng, 4500);
                match rng.below(8) {
                    0 => r.class = 3,
                    1 => r.rdata = wire::RData::Ptr(Name::from_dotted(&format!("other.{base}"))),
                    2 => r.name = Name::from_dotted("_other._tcp.local."),
                    3 => r.class |= wire::FLUSH,
                    _ => {}
                }
                m.answers.push(r);
            }
            if rng.below(3) == 0 {
                let mut r = Rec::srv(&full, &hostn, sp.port, 0, true);
                r.ttl = pick_ttl(&mut rng, 120);
                if rng.below(4) == 0 {
                    r.rdata = wire::RData::Srv { prio: 0, weight: 0, port: sp.port.wrapping_add(1), target: hostn.clone() };
                }
                m.answers.push(r);
            }
            if rng.below(3) == 0 {
                let mut r = Rec::txt(&full, accepted_txt(sp), 0, true);
                r.ttl = pick_ttl(&mut rng, 4500);
                m.answers.push(r);
            }
            if rng.below(3) == 0 {
                if let Some(a) = sp.addrs.iter().filter_map(|a| a.parse::<std::net::Ipv4Addr>().ok()).next() {
                    let mut r = Rec::a(&hostn, a.octets(), 0, true);
                    r.ttl = pick_ttl(&mut rng, 120);
                    m.answers.push(r);
                }
            }
            if rng.below(3) == 0 {
                // what a browser that knows several instances sends: records of other hosts with the same owner name and
                // type, listed before (or after) the daemon's own
                let others = vec![Rec::ptr(&Name::from_dotted(&base), &Name::from_dotted(&format!("somebody else.{base}")), 4500), Rec::ptr(&Name::from_dotted(&base), &Name::from_dotted(&format!("a third one.{base}")), 2000)];
                for (k, o) in others.into_iter().enumerate() {
                    if rng.bool() {
                        m.answers.insert(0, o);
                    } else if k == 0 {
                        m.answers.push(o);
                    }
                }
            }
            if rng.below(6) == 0 {
                // known answer placed in the wrong section: must not suppress
                let ka = std::mem::take(&mut m.answers);
                m.additionals = ka;
            }
        }
        s.op(t, Op::PeerSend { p, v4, sport, msg: m, to: Dest::Mcast });
    }
    if profile == "stall" {
        // a stall that skips probe steps of the first service
        let t0 = specs[0].0;
        s.op(t0 + [0, 100, 260, 510][rng.below(4) as usize], Op::Stall { d: 0, ms: [250, 400, 600, 1000][rng.below(4) as usize] });
    }
    if rng.below(4) == 0 || flavor == Flavor::C09 && rng.bool() {
        s.op(t_end + 200, Op::Shutdown { d: 0, slot: 99 });
    }
    s.horizon_ms = t_end + 3000;
    s.max_steps = 8000;
    s.params = json!({"jitter": j});
    s.sort_ops();
    s
}

/// number of distinct "-N" host names the DUT probed for (rename cascade)
fn renamed_hosts_on_wire(tr: &Trace, d: usize) -> usize {
    let mut names: Vec<String> = vec![];
    for x in tr.tx.iter().filter(|x| x.d == d) {
        let Some(m) = &x.msg else { continue };
        if m.is_query() {
            for q in &m.questions {
                let n = q.name.dotted();
                if q.ty == wire::T_ANY && q.name.0.len() == 2 && n.rsplit_once('-').map(|(_, t)| t.trim_end_matches(".local.").parse::<u32>().is_ok()).unwrap_or(false) && !names.contains(&n) {
                    names.push(n);
                }
            }
        }
    }
    names.len()
}

fn sl(scn: &Scenario) -> u64 {
    scn.sched.max_latency + if scn.sched.max_latency > 0 { 2 } else { 0 }
}

fn has_rec(v: &[Rec], r: &Rec) -> bool {
    v.iter().any(|x| x.same_data(r))
}

/// All (if, v4) deliveries of the query sent by op `op_idx`, with the step that read it.
fn query_deliveries<'t>(tr: &'t Trace, scn: &Scenario, op_idx: usize) -> Vec<&'t Rx> {
    let Op::PeerSend { p, msg, .. } = &scn.ops[op_idx].op else { return vec![] };
    let Some(t) = op_time(tr, op_idx) else { return vec![] };
    let bytes = msg.encode();
    tr.rx.iter().filter(|r| r.src == Src::Peer(*p) && r.t_sent == t && r.step.is_some() && r.bytes == bytes).collect()
}

/// Times at which the daemon has scheduled work of its own (probe steps, announcements, goodbye repeats):
/// a query read in such a step cannot be told apart from that work and is not judged.
fn scheduled_times(scn: &Scenario, tr: &Trace, m: &TxModel) -> Vec<u64> {
    let mut v = vec![];
    for (si, s) in m.svcs.iter().enumerate() {
        let j = jitter_at(scn, m.d, s.reg_t);
        for k in 0..8 {
            v.push(s.reg_t + j + 250 * k);
        }
        v.push(s.reg_t);
        for (ifx, v4) in m.usable(scn, s) {
            if let Some(a) = m.first_announce(tr, si, ifx, v4) {
                v.push(a.t);
                v.push(a.t + 1000);
            }
        }
        if let Some(t) = s.end_t {
            v.push(t);
            v.push(t + 120);
        }
    }
    v
}

// ===================================================================== C06

pub struct C06;

impl Property for C06 {
    fn id(&self) -> &'static str {
        "C06"
    }
    fn count(&self, tier: Tier) -> u64 {
        match tier {
            Tier::Quick => 1200,
            Tier::Thorough => 25_000,
        }
    }
    fn rule_text(&self) -> &'static str {
        "seeded worlds: a DUT with 1-3 interfaces (own segments, v4 / v6 / dual) registers 1-3 services (optional subtype, mixed-case instance and host names, shared hosts, addresses on some / no / foreign subnets, probing on or off), re-registers, unregisters; a peer per segment injects 20-50 queries at seeded times over the whole history (before registration, during probing, between the announcements, after unregister): PTR for type / subtype / meta-query / foreign type, SRV / TXT / ANY on the instance name, A / AAAA / ANY on the host name in four letter-case variants, near-miss names, 1-4 questions per message, over v4 or v6, from port 5353 or an ephemeral port (legacy unicast). Each delivered query is judged against the responder model: required records present, nothing outside required+allowed, TTLs, cache-flush bits, link-local addresses, destination, legacy-unicast echo. Non-trivial = a query whose expected record set is non-empty, or empty because of state (probing / unregistered / no address on the link); distinct by schedule signature."
    }
    fn assumptions(&self) -> Vec<&'static str> {
        vec![
            "a query read in a step in which the daemon also has scheduled work (probe step, announcement, goodbye repeat) is not judged, since its packets cannot be attributed",
            "section placement is not judged except that PTR answers must be accompanied by SRV, TXT and addresses in the same packet",
        ]
    }
    fn expected_probes(&self) -> Vec<&'static str> {
        vec!["q-ptr-type", "q-ptr-subtype", "q-meta", "q-srv", "q-txt", "q-any-instance", "q-a", "q-aaaa", "q-any-host", "legacy-unicast", "state-probing", "state-unregistered", "state-no-address-on-link", "case-variant-answered", "over-v6"]
    }
    fn gen(&self, seed: u64, index: u64, tier: Tier) -> Scenario {
        gen_world("C06", Flavor::C06, seed, index, tier)
    }
    fn judge(&self, scn: &Scenario, tr: &Trace) -> Judged {
        judge_queries(scn, tr, false)
    }
}

/// Shared by C06 (no known answers) and C10 (known answers): judge every injected query.
pub fn judge_queries(scn: &Scenario, tr: &Trace, c10: bool) -> Judged {
    let mut j = judge_queries_inner(scn, tr, c10);
    // Violations about a name with an escaped character in a label are tagged: questions for such names never match
    // the daemon's own (escaped) spelling, a known finding.
    for v in j.violations.iter_mut() {
        if v.detail.contains("\\.") || v.detail.contains("\\\\") {
            v.detail = format!("[name with '.' or '\\' in a label] {}", v.detail);
        }
    }
    j
}

fn judge_queries_inner(scn: &Scenario, tr: &Trace, c10: bool) -> Judged {
    let mut j = Judged::default();
    let d = 0;
    let m = TxModel::build(scn, tr, d);
    let sched = scheduled_times(scn, tr, &m);
    let slk = sl(scn);
    // conflict resolution renamed something (C08's subject): the model speaks about registered names only;
    // queries read after the first rename are not judged
    let first_rename = tr.events.iter().filter(|e| matches!(e.ev, EvKind::MonNameChange { .. })).map(|e| e.t).min();
    let first_conflict_probe = tr.tx.iter().filter(|x| x.d == d && x.msg.as_ref().map(|mm| mm.is_query() && mm.questions.iter().any(|q| { let n = q.name.dotted(); n.contains(" (2).") || n.contains("-2.local.") })).unwrap_or(false)).map(|x| x.t).min();
    let rename_t = match (first_rename, first_conflict_probe) {
        (Some(a), Some(b)) => Some(a.min(b)),
        (a, b) => a.or(b),
    };
    for (oi, o) in scn.ops.iter().enumerate() {
        let Op::PeerSend { p, msg, sport, v4, .. } = &o.op else { continue };
        if let (Some(rt), Some(t)) = (rename_t, op_time(tr, oi)) {
            if t + 1000 >= rt {
                j.abstained += 1;
                continue;
            }
        }
        if !msg.is_query() {
            continue;
        }
        let legacy = *sport != 5353;
        for rx in query_deliveries(tr, scn, oi) {
            let step = rx.step.unwrap();
            let t = rx.t_read.unwrap();
            // attribution: only one query read in this step, and no scheduled work at this time
            let same_step = tr.rx.iter().filter(|r| r.d == d && r.step == Some(step) && r.msg.as_ref().map(|x| x.is_query() && r.src != Src::Dut(d)).unwrap_or(false)).count();
            let busy = sched.iter().any(|&s| t >= s && t <= s + slk);
            if same_step != 1 || busy {
                j.abstained += 1;
                continue;
            }
            let has_ka = !msg.answers.is_empty();
            if has_ka != c10 && !c10 {
                continue;
            }
            let ifx = rx.if_index;
            let ex = expect_for(&m, scn, tr, &msg.questions, ifx, *v4, step, legacy);
            // responses in this step on this channel, or unicast to the peer
            let peer_ip: Option<IpAddr> = if *v4 { scn.peers[*p].v4.as_ref().and_then(|s| s.parse().ok()) } else { scn.peers[*p].v6.as_ref().and_then(|s| s.parse().ok()) };
            let resp: Vec<&Tx> = tr.tx.iter().filter(|x| x.d == d && x.step == step && x.msg.as_ref().map(|mm| mm.is_response()).unwrap_or(false)).collect();
            let on_chan: Vec<&&Tx> = resp.iter().filter(|x| (x.mcast && x.if_index == Some(ifx) && x.v4 == *v4) || (!x.mcast && Some(x.dest.ip()) == peer_ip)).collect();
            let elsewhere: Vec<&&Tx> = resp.iter().filter(|x| !((x.mcast && x.if_index == Some(ifx) && x.v4 == *v4) || (!x.mcast && Some(x.dest.ip()) == peer_ip))).collect();
            j.judgements += 1;
            // probes
            for q in &msg.questions {
                let name = match q.ty {
                    wire::T_PTR if q.name.dotted() == META => "q-meta",
                    wire::T_PTR if q.name.dotted().contains("._sub.") => "q-ptr-subtype",
                    wire::T_PTR => "q-ptr-type",
                    wire::T_SRV => "q-srv",
                    wire::T_TXT => "q-txt",
                    wire::T_A => "q-a",
                    wire::T_AAAA => "q-aaaa",
                    wire::T_ANY if q.name.0.len() > 2 => "q-any-instance",
                    wire::T_ANY => "q-any-host",
                    _ => "q-other",
                };
                j.probe(name);
            }
            if legacy {
                j.probe("legacy-unicast");
            }
            if !*v4 {
                j.probe("over-v6");
            }
            // state-caused emptiness
            for (si, s) in m.svcs.iter().enumerate() {
                let names_it = msg.questions.iter().any(|q| q.name.eq_ci(&s.fullname) || q.name.eq_ci(&s.host) || q.name.dotted() == s.ty.dotted());
                if !names_it {
                    continue;
                }
                if s.reg_step < step && s.end_step.map(|e| e >= step).unwrap_or(true) && !m.active_for_packet(scn, tr, si, ifx, step) {
                    j.probe("state-probing");
                    j.nontrivial = true;
                }
                if s.end_step.map(|e| e < step).unwrap_or(false) {
                    j.probe("state-unregistered");
                    j.nontrivial = true;
                }
                if m.active_for_packet(scn, tr, si, ifx, step) && m.link_addrs(scn, s, ifx, *v4).is_empty() {
                    j.probe("state-no-address-on-link");
                    j.nontrivial = true;
                }
            }
            if !ex.required.is_empty() {
                j.nontrivial = true;
                if msg.questions.iter().any(|q| m.svcs.iter().any(|s| (q.name.eq_ci(&s.fullname) && q.name != s.fullname) || (q.name.eq_ci(&s.host) && q.name != s.host))) {
                    j.probe("case-variant-answered");
                }
            }
            if c10 {
                // C10 judges presence/absence per record in its own function
                judge_known_answers(&mut j, scn, tr, &m, msg, &ex, &on_chan, ifx, *v4, t);
                continue;
            }
            let q_desc = format!("query {} on if{} {} at t={} (sport {})", wire::summarize(msg), ifx, if *v4 { "v4" } else { "v6" }, t, sport);
            // nothing may leave on another channel in reaction
            if let Some(x) = elsewhere.first() {
                j.fail("C06-R5", format!("{q_desc}: a response left on another channel: if{:?} {} to {}: {}", x.if_index, if x.v4 { "v4" } else { "v6" }, x.dest, x.msg.as_ref().map(wire::summarize).unwrap_or_default()));
            }
            let mut got: Vec<Rec> = vec![];
            for x in &on_chan {
                for r in x.msg.as_ref().unwrap().all_records() {
                    if !has_rec(&got, r) {
                        got.push(r.clone());
                    }
                }
            }
            if ex.required.is_empty() {
                if let Some(x) = on_chan.first() {
                    j.fail("C06-R1", format!("{q_desc}: nothing should be sent (no registered, announced service with an address on this link matches) but the daemon sent {}", x.msg.as_ref().map(wire::summarize).unwrap_or_default()));
                }
                continue;
            }
            if on_chan.is_empty() {
                j.fail("C06-R1", format!("{q_desc}: no response, expected {:?}", ex.required.iter().map(|r| format!("{}:{}", r.name.escaped(), wire::ty_name(r.ty))).collect::<Vec<_>>()));
                continue;
            }
            // R1 exactness
            for r in &ex.required {
                if !has_rec(&got, r) {
                    j.fail("C06-R1", format!("{q_desc}: required record {}:{} {:?} missing; response: {}", r.name.escaped(), wire::ty_name(r.ty), r.rdata, on_chan.iter().map(|x| wire::summarize(x.msg.as_ref().unwrap())).collect::<Vec<_>>().join(" | ")));
                    break;
                }
            }
            for r in &got {
                if !has_rec(&ex.required, r) && !has_rec(&ex.allowed, r) {
                    let rule = if matches!(r.ty, wire::T_A | wire::T_AAAA) { "C06-R3" } else { "C06-R1" };
                    j.fail(rule, format!("{q_desc}: record {}:{} {:?} is neither required nor allowed by the registration state; response: {}", r.name.escaped(), wire::ty_name(r.ty), r.rdata, on_chan.iter().map(|x| wire::summarize(x.msg.as_ref().unwrap())).collect::<Vec<_>>().join(" | ")));
                    break;
                }
            }
            // R2 values: TTL and cache-flush
            for r in &got {
                let want_ttl = match r.ty {
                    wire::T_SRV | wire::T_A | wire::T_AAAA => 120,
                    _ => 4500,
                };
                let want_flush = !legacy && r.ty != wire::T_PTR;
                if r.ttl != want_ttl {
                    j.fail("C06-R2", format!("{q_desc}: {}:{} sent with TTL {} (expected {})", r.name.escaped(), wire::ty_name(r.ty), r.ttl, want_ttl));
                    break;
                }
                if r.flush() != want_flush {
                    let rule = if legacy { "C06-R5" } else { "C06-R2" };
                    j.fail(rule, format!("{q_desc}: {}:{} cache-flush bit is {} (expected {})", r.name.escaped(), wire::ty_name(r.ty), r.flush(), want_flush));
                    break;
                }
            }
            // R4: a PTR answer is accompanied by SRV, TXT and addresses in the same packet
            for x in &on_chan {
                let mm = x.msg.as_ref().unwrap();
                for a in mm.answers.iter().filter(|a| a.ty == wire::T_PTR && a.name.dotted() != META) {
                    let Some(tn) = ptr_target(a) else { continue };
                    let all: Vec<&Rec> = mm.all_records().collect();
                    let has_srv = all.iter().any(|r| r.ty == wire::T_SRV && r.name.eq_ci(tn));
                    let has_txt = all.iter().any(|r| r.ty == wire::T_TXT && r.name.eq_ci(tn));
                    let has_addr = all.iter().any(|r| matches!(r.ty, wire::T_A | wire::T_AAAA));
                    if !(has_srv && has_txt && has_addr) {
                        j.fail("C06-R4", format!("{q_desc}: PTR answer for {} not accompanied by SRV/TXT/address in the same packet: {}", tn.escaped(), wire::summarize(mm)));
                    }
                }
            }
            // R5: destination, legacy echo
            if legacy {
                let uni: Vec<&&&Tx> = on_chan.iter().filter(|x| !x.mcast).collect();
                if on_chan.iter().any(|x| x.mcast) {
                    j.fail("C06-R5", format!("{q_desc}: legacy unicast query answered by multicast"));
                }
                if uni.len() != 1 {
                    j.fail("C06-R5", format!("{q_desc}: expected exactly one unicast reply, saw {}", uni.len()));
                } else {
                    let x = uni[0];
                    let mm = x.msg.as_ref().unwrap();
                    if x.dest.port() != *sport {
                        j.fail("C06-R5", format!("{q_desc}: unicast reply sent to port {} instead of the querier's port", x.dest.port()));
                    }
                    if mm.id != msg.id {
                        j.fail("C06-R5", format!("{q_desc}: legacy unicast reply carries ID {} instead of the query ID {}", mm.id, msg.id));
                    }
                    let echoed = msg.questions.iter().all(|q| mm.questions.iter().any(|e| e.ty == q.ty && e.name.eq_ci(&q.name)));
                    if !echoed || mm.questions.len() != msg.questions.len() {
                        j.fail("C06-R5", format!("{q_desc}: question section not echoed: {}", wire::summarize(mm)));
                    }
                }
            } else if on_chan.iter().any(|x| !x.mcast) {
                j.fail("C06-R5", format!("{q_desc}: query from port 5353 answered by unicast"));
            }
        }
    }
    j
}

#[allow(clippy::too_many_arguments)]
fn judge_known_answers(j: &mut Judged, _scn: &Scenario, _tr: &Trace, _m: &TxModel, msg: &Msg, ex: &Expect, on_chan: &[&&Tx], ifx: u32, v4: bool, t: u64) {
    let q_desc = format!("query {} on if{} {} at t={}", wire::summarize(msg), ifx, if v4 { "v4" } else { "v6" }, t);
    let mut got: Vec<Rec> = vec![];
    for x in on_chan {
        for r in x.msg.as_ref().unwrap().all_records() {
            if !has_rec(&got, r) {
                got.push(r.clone());
            }
        }
    }
    // classify each required record: suppressed / must be present / not judged (ttl == half)
    // A suppressed PTR also removes the additionals it alone would have brought.
    let suppress_state = |r: &Rec| -> Option<bool> {
        // Some(true) = must be absent, Some(false) = must be present, None = boundary, not judged
        let mut st = Some(false);
        for k in &msg.answers {
            // same record: owner (ci), type, class without flush bit... the flush bit is part of the class field on
            // the wire; the statement compares owner, type, class, RDATA
            if k.same_data(r) {
                // the cache-flush bit is not part of (owner, type, class, RDATA); a known answer whose bit differs
                // from the daemon's own record (before a legacy reply clears it) is not judged either way
                let natural_flush = r.ty != wire::T_PTR;
                if k.flush() != natural_flush {
                    st = None;
                    continue;
                }
                let half = r.ttl / 2;
                if k.ttl > half {
                    return Some(true);
                } else if k.ttl == half {
                    st = None;
                }
            }
        }
        st
    };
    let mut ptr_suppressed: Vec<Name> = vec![];
    let mut ptr_present: Vec<Name> = vec![];
    for r in ex.required.iter().filter(|r| r.ty == wire::T_PTR) {
        if let Some(tn) = ptr_target(r) {
            match suppress_state(r) {
                Some(true) => ptr_suppressed.push(tn.clone()),
                Some(false) => ptr_present.push(tn.clone()),
                None => {}
            }
        }
    }
    let direct_q = |r: &Rec| msg.questions.iter().any(|q| q.name.eq_ci(&r.name) && (q.ty == r.ty || q.ty == wire::T_ANY));
    for r in &ex.required {
        let st = suppress_state(r);
        // additionals of a PTR: present iff the PTR is present (unless also asked directly)
        let brought_by: Option<&Name> = if r.ty != wire::T_PTR && !direct_q(r) {
            ptr_suppressed.iter().chain(ptr_present.iter()).find(|tn| r.name.eq_ci(tn)).or(None)
        } else {
            None
        };
        let is_additional_only = r.ty != wire::T_PTR && !direct_q(r);
        j.judgements += 1;
        if is_additional_only {
            // SRV/TXT of a PTR target, or addresses of its host: judged through the PTR
            let owner_ptr_suppressed = !ptr_suppressed.is_empty() && ptr_present.is_empty();
            // (a PTR that should be present but is missing is reported on the PTR itself, not again on its additionals)
            let ptr_really_there = ex.required.iter().filter(|p| p.ty == wire::T_PTR && p.name.dotted() != META).all(|p| has_rec(&got, p));
            let owner_ptr_present = !ptr_present.is_empty() && ptr_suppressed.is_empty() && ptr_really_there;
            let _ = brought_by;
            // an address may also travel as an additional of a directly asked SRV that is answered
            let via_srv = matches!(r.ty, wire::T_A | wire::T_AAAA) && got.iter().any(|g| g.ty == wire::T_SRV && srv_target(g).map(|(h, _)| h.eq_ci(&r.name)).unwrap_or(false));
            if owner_ptr_suppressed && has_rec(&got, r) && !via_srv {
                j.probe("additionals-dropped-with-ptr");
                j.fail("C10-R1", format!("{q_desc}: the PTR answer is suppressed by a known answer, but its additional {}:{} was still sent", r.name.escaped(), wire::ty_name(r.ty)));
            } else if owner_ptr_suppressed {
                j.probe("additionals-dropped-with-ptr");
                j.nontrivial = true;
            }
            if owner_ptr_present && !has_rec(&got, r) {
                j.fail("C10-R2", format!("{q_desc}: additional {}:{} missing although its PTR answer is not suppressed", r.name.escaped(), wire::ty_name(r.ty)));
            }
            continue;
        }
        match st {
            Some(true) => {
                j.nontrivial = true;
                j.probe("suppressed");
                // the same record may legitimately travel as an additional of a PTR answer that is present
                let ptr_answer_sent = got.iter().any(|g| g.ty == wire::T_PTR && g.name.dotted() != META);
                if r.ty != wire::T_PTR && ptr_answer_sent {
                    continue;
                }
                // ... or as an additional of a directly asked SRV that is answered
                if matches!(r.ty, wire::T_A | wire::T_AAAA) && got.iter().any(|g| g.ty == wire::T_SRV && srv_target(g).map(|(h, _)| h.eq_ci(&r.name)).unwrap_or(false)) {
                    continue;
                }
                if has_rec(&got, r) {
                    // the known answer's owner is spelled in another letter case than the question?
                    let case_note = if msg.answers.iter().any(|k| k.same_data(r) && msg.questions.iter().any(|q| q.name.eq_ci(&k.name) && q.name != k.name)) {
                        " (the known answer spells the owner name in another letter case than the question; the daemon compares the spelling exactly)"
                    } else {
                        ""
                    };
                    j.fail("C10-R1", format!("{q_desc}: {}:{} is listed as known answer with TTL above half of {} but was sent anyway{case_note}", r.name.escaped(), wire::ty_name(r.ty), r.ttl));
                }
            }
            Some(false) => {
                if msg.answers.iter().any(|k| k.ty == r.ty && k.name.eq_ci(&r.name)) || msg.additionals.iter().any(|k| k.ty == r.ty && k.name.eq_ci(&r.name)) {
                    j.nontrivial = true;
                    j.probe("near-miss-not-suppressed");
                }
                if !has_rec(&got, r) {
                    let sub_note = if r.ty == wire::T_PTR && r.name.dotted().contains("._sub.") && msg.answers.iter().any(|k| k.ty == wire::T_PTR && !k.name.dotted().contains("._sub.") && ptr_target(k).zip(ptr_target(r)).map(|(a, b)| a.eq_ci(b)).unwrap_or(false)) {
                        " (the daemon answers a subtype question with the base-type PTR, which the listed known answer suppresses)"
                    } else {
                        ""
                    };
                    j.fail("C10-R2", format!("{q_desc}: {}:{} must be answered{sub_note} (known answers listed: {:?}) but is missing; response: {}", r.name.escaped(), wire::ty_name(r.ty), msg.answers.iter().map(|k| format!("{}:{}/{}{}", k.name.escaped(), wire::ty_name(k.ty), k.ttl, if k.flush() { "!" } else { "" })).collect::<Vec<_>>(), on_chan.iter().map(|x| wire::summarize(x.msg.as_ref().unwrap())).collect::<Vec<_>>().join(" | ")));
                }
            }
            None => j.probe("ttl-equals-half-not-judged"),
        }
    }
}

// ===================================================================== C07

pub struct C07;

impl Property for C07 {
    fn id(&self) -> &'static str {
        "C07"
    }
    fn level(&self) -> &'static str {
        "fault_enumeration"
    }
    fn count(&self, tier: Tier) -> u64 {
        match tier {
            Tier::Quick => 1440,
            Tier::Thorough => 6 * 250 * 12,
        }
    }
    fn exhaustive_part(&self, tier: Tier) -> Option<&'static str> {
        match tier {
            Tier::Quick => Some("start jitter grid {0,1,62,124,125,187,248,249} x 30 seeded worlds x 6 profiles"),
            Tier::Thorough => Some("every start jitter 0..=249 x 12 seeded worlds x 6 profiles"),
        }
    }
    fn rule_text(&self) -> &'static str {
        "the start jitter (the value the daemon draws for its first probe) is a simulator input and is enumerated (quick: 8-point grid; thorough: every value 0..249); for each value seeded worlds register 1-3 services (optional subtype, v4 / v6 / dual, 1-3 interfaces, shared host names, second service registered before / during / after the first one's probing, probing disabled, re-registration) while a peer queries during probing. Strict profile: probes exactly at register+jitter, +250, +500, announcement at +750 and +1750, per interface and family; latency profile: the same rules as inequalities. Non-trivial = every world (each judges >= 1 registration); distinct by schedule signature."
    }
    fn assumptions(&self) -> Vec<&'static str> {
        vec![
            "the jitter seam returns the same value for every draw of a run, so the probe start is register time + jitter exactly",
            "the stall profile (daemon not scheduled for 250-1000 ms during probing) is reported separately: see known finding F-C07-time-based-probing",
        ]
    }
    fn expected_probes(&self) -> Vec<&'static str> {
        vec!["three-probes-seen", "second-announcement", "no-probe-service", "shared-host", "query-during-probing-unanswered", "subtype-announced", "v6-channel", "registered-during-other-probing"]
    }
    fn gen(&self, seed: u64, index: u64, tier: Tier) -> Scenario {
        gen_world("C07", Flavor::C07, seed, index, tier)
    }
    fn known_finding_scenarios(&self, seed: u64) -> Vec<(String, Scenario)> {
        // two services share a host name with different address sets, multicast loop-back on (the default)
        let mut s = Scenario::new("C07", "known-self-conflict", mix(seed, 0xC07));
        strict(&mut s);
        s.duts.push(dut_dual(1, 10, 0));
        s.op(0, Op::SetIpCheck { d: 0, secs: HUGE_IP_CHECK_SECS });
        s.op(0, Op::Monitor { d: 0, slot: 1 });
        let mk = |inst: &str, addrs: Vec<&str>| SvcSpec { ty: "_http._tcp.local.".into(), instance: inst.into(), host: "shared.local.".into(), addrs: addrs.into_iter().map(String::from).collect(), port: 80, txt: vec![], addr_auto: false, probe: true, intfs: None, link_local_only: false, txt_via: None };
        s.op(100, Op::Register { d: 0, svc: mk("one", vec!["192.168.1.10"]) });
        s.op(2000, Op::Register { d: 0, svc: mk("two", vec!["192.168.1.10", "192.168.1.200"]) });
        s.horizon_ms = 8000;
        s.sched.jitter = vec![vec![0; 4096]];
        s.params = json!({"jitter": 0});
        vec![("F-C07-self-conflict".to_string(), s)]
    }
    fn judge(&self, scn: &Scenario, tr: &Trace) -> Judged {
        let mut j = Judged::default();
        let d = 0;
        let m = TxModel::build(scn, tr, d);
        let renamed = tr.events.iter().any(|e| matches!(e.ev, EvKind::MonNameChange { .. }));
        let strict_run = scn.sched.max_latency == 0 && !scn.ops.iter().any(|o| matches!(o.op, Op::Stall { .. })) && !renamed;
        let stalled = scn.ops.iter().any(|o| matches!(o.op, Op::Stall { .. }));
        let lat = sl(scn);
        let horizon = tr.stats.sim_ms;
        for (si, s) in m.svcs.iter().enumerate() {
            let jit = jitter_at(scn, d, s.reg_t);
            let usable = m.usable(scn, s);
            if usable.is_empty() {
                continue;
            }
            // renamed by conflict resolution (C08's subject): the rules below speak about the registered names
            let was_renamed = tr.events.iter().any(|e| matches!(&e.ev, EvKind::MonNameChange { original, .. } if Name::from_dotted(original).eq_ci(&s.fullname) || Name::from_dotted(original).eq_ci(&s.host)))
                && !tr.events.iter().any(|e| matches!(&e.ev, EvKind::MonNameChange { ty, .. } if (*ty == wire::T_A || *ty == wire::T_AAAA)) && renamed_hosts_on_wire(tr, d) >= 3);
            if was_renamed {
                j.abstained += 1;
                continue;
            }
            j.nontrivial = true;
            let shared_host = m.svcs.iter().enumerate().any(|(k, o)| k != si && o.host.eq_ci(&s.host) && o.reg_order < s.reg_order);
            if shared_host {
                j.probe("shared-host");
            }
            if m.svcs.iter().enumerate().any(|(k, o)| k != si && o.reg_t < s.reg_t && s.reg_t < o.reg_t + jit + 750) {
                j.probe("registered-during-other-probing");
            }
            // same names registered earlier (re-registration): records may already be active
            let rereg = m.svcs.iter().enumerate().any(|(k, o)| k != si && o.fullname.eq_ci(&s.fullname) && o.reg_order < s.reg_order);
            for (ifx, v4) in usable {
                let chan = format!("if{} {}", ifx, if v4 { "v4" } else { "v6" });
                if !v4 {
                    j.probe("v6-channel");
                }
                let end_t = s.end_t.unwrap_or(u64::MAX);
                let ann = m.first_announce(tr, si, ifx, v4);
                // R4 progress
                let due = s.reg_t + 250 + 750 + 4 * lat + if stalled { 2000 } else { 0 };
                j.judgements += 1;
                let Some(a) = ann else {
                    if end_t > due + 1 && horizon > due + 1 {
                        let host_renames = tr.events.iter().filter(|e| matches!(&e.ev, EvKind::MonNameChange { ty, .. } if *ty == wire::T_A || *ty == wire::T_AAAA)).count();
                        let own_answers = tr.rx.iter().any(|r| r.src == Src::Dut(d) && r.d == d && r.step.is_some() && r.msg.as_ref().map(|mm| mm.is_response()).unwrap_or(false));
                        let shares = m.svcs.iter().enumerate().any(|(k, o)| k != si && o.host.eq_ci(&s.host));
                        let extra = if shares && own_answers && (host_renames >= 2 || renamed_hosts_on_wire(tr, d) >= 2) { " after repeated renames of its host name: the daemon conflicts with its own answers heard through multicast loop-back" } else { "" };
                        j.fail("C07-R4", format!("service {} registered at t={} was not announced on {} by t={} (horizon {}){}", s.fullname.escaped(), s.reg_t, chan, due, horizon, extra));
                    }
                    continue;
                };
                if a.t > due && end_t > due {
                    j.fail("C07-R4", format!("service {} registered at t={} was announced on {} only at t={} (bound {})", s.fullname.escaped(), s.reg_t, chan, a.t, due));
                }
                let am = a.msg.as_ref().unwrap();
                // announcement content (R3)
                let fam_addrs = m.link_addrs(scn, s, ifx, v4);
                let mut want: Vec<Rec> = vec![Rec::ptr(&s.ty, &s.fullname, 4500), m.srv_rec(s, 120, true), Rec::txt(&s.fullname, s.txt.clone(), 4500, true)];
                if let Some(sub) = &s.sub {
                    want.push(Rec::ptr(sub, &s.fullname, 4500));
                    j.probe("subtype-announced");
                }
                for ip in &fam_addrs {
                    want.push(match ip {
                        IpAddr::V4(x) => Rec::a(&s.host, x.octets(), 120, true),
                        IpAddr::V6(x) => Rec::aaaa(&s.host, x.octets(), 120, true),
                    });
                }
                for w in &want {
                    if !has_rec(&am.answers, w) {
                        j.fail("C07-R3", format!("first announcement of {} on {} at t={} lacks {}:{} in its answer section: {}", s.fullname.escaped(), chan, a.t, w.name.escaped(), wire::ty_name(w.ty), wire::summarize(am)));
                        break;
                    }
                }
                // second announcement: some later announcement at least (strict: exactly) one second after the first
                let later: Vec<&Tx> = tr
                    .tx
                    .iter()
                    .filter(|x| x.d == d && x.idx > a.idx && x.if_index == Some(ifx) && x.v4 == v4 && x.mcast && x.msg.as_ref().map(|mm| mm.is_response() && want.iter().all(|w| has_rec(&mm.answers, w))).unwrap_or(false))
                    .collect();
                // (a registration that is replaced or withdrawn inside the window in which the second announcement may
                // legitimately be late - after a stall - owes none)
                let slack2 = lat + if stalled { 2000 } else { 0 };
                let ended_before_second = end_t <= a.t + 1000 + slack2;
                if !ended_before_second && horizon > a.t + 1000 + slack2 + 1 {
                    j.judgements += 1;
                    let hit = later.iter().any(|x| x.t >= a.t + 1000 && x.t <= a.t + 1000 + slack2);
                    if hit {
                        j.probe("second-announcement");
                    } else {
                        j.fail(
                            "C07-R3",
                            format!("no announcement of {} on {} in [{}, {}] (one second after the first at t={}); later announcements at {:?}", s.fullname.escaped(), chan, a.t + 1000, a.t + 1000 + slack2, a.t, later.iter().map(|x| x.t).collect::<Vec<_>>()),
                        );
                    }
                }
                // probes (R1) and early answers (R2)
                let probes: Vec<&Tx> = tr
                    .tx
                    .iter()
                    .filter(|x| {
                        x.d == d && x.step >= s.reg_step && x.idx < a.idx && x.if_index == Some(ifx) && x.v4 == v4 && x.mcast
                            && x.msg.as_ref().map(|mm| mm.is_query() && mm.questions.iter().any(|q| q.ty == wire::T_ANY && q.name.eq_ci(&s.fullname))).unwrap_or(false)
                    })
                    .collect();
                if !s.spec.probe {
                    j.probe("no-probe-service");
                    j.judgements += 1;
                    if a.step != s.reg_step {
                        j.fail("C07-R5", format!("service {} does not require probing but was announced on {} at t={} instead of in the step that consumed register (t={})", s.fullname.escaped(), chan, a.t, s.reg_t));
                    }
                } else if !rereg {
                    j.judgements += 1;
                    let times: Vec<u64> = probes.iter().map(|x| x.t).collect();
                    let mut ok = times.len() >= 3;
                    if ok {
                        let l = times.len();
                        let p3 = times[l - 1];
                        let p2 = times[l - 2];
                        let p1 = times[l - 3];
                        ok = p2 - p1 >= 250 && p3 - p2 >= 250 && a.t - p3 >= 250;
                        if ok && strict_run {
                            // a lost tiebreak against nobody cannot happen here: exactly three probes, exact times
                            // with a host name shared with a service registered around the same time the announcement
                            // also waits for that service's host-name probe: only the lower bound is exact then
                            let overlap = m.svcs.iter().enumerate().any(|(k, o)| k != si && o.host.eq_ci(&s.host) && o.reg_t.abs_diff(s.reg_t) < 1100);
                            let a_ok = if overlap { a.t >= p1 + 750 && a.t <= p1 + 750 + 1100 } else { a.t == p1 + 750 };
                            if times.len() != 3 || p1 != s.reg_t + jit || p2 - p1 != 250 || p3 - p2 != 250 || !a_ok {
                                j.fail("C07-R1", format!("service {} on {}: probes at {:?}, first announcement at {}; expected probes at {}, {}, {} and the announcement at {} (register t={}, jitter {})", s.fullname.escaped(), chan, times, a.t, s.reg_t + jit, s.reg_t + jit + 250, s.reg_t + jit + 500, s.reg_t + jit + 750, s.reg_t, jit));
                            }
                        }
                        if ok {
                            j.probe("three-probes-seen");
                        }
                    }
                    if !ok {
                        if !strict_run && a.t >= s.reg_t + jit + 750 {
                            j.fail("C07-R1", format!("service {} on {}: announced at t={} after probes at {:?} (need three, 250 ms apart, and 250 ms of silence); probing finished by the clock (start {} + 750) although the daemon was woken late", s.fullname.escaped(), chan, a.t, times, s.reg_t + jit));
                        } else {
                            j.fail("C07-R1", format!("service {} on {}: announced at t={} after probes at {:?} (need three, 250 ms apart, and 250 ms of silence)", s.fullname.escaped(), chan, a.t, times));
                        }
                    }
                    // probe content
                    for x in &probes {
                        let mm = x.msg.as_ref().unwrap();
                        let auth_ok = has_rec(&mm.authorities, &m.srv_rec(s, 120, true)) && has_rec(&mm.authorities, &Rec::txt(&s.fullname, s.txt.clone(), 4500, true));
                        let addr_ok = fam_addrs.iter().all(|ip| {
                            has_rec(
                                &mm.authorities,
                                &match ip {
                                    IpAddr::V4(v) => Rec::a(&s.host, v.octets(), 120, true),
                                    IpAddr::V6(v) => Rec::aaaa(&s.host, v.octets(), 120, true),
                                },
                            )
                        });
                        let host_q = mm.questions.iter().any(|q| q.ty == wire::T_ANY && q.name.eq_ci(&s.host));
                        if !auth_ok || (!shared_host && !(addr_ok && host_q)) {
                            j.fail("C07-R1", format!("probe for {} on {} at t={} lacks the proposed records in its authority section or the host-name question: {}", s.fullname.escaped(), chan, x.t, wire::summarize(mm)));
                            break;
                        }
                    }
                }
                // R2: nothing about the service in any response before the first announcement
                if !rereg {
                    for x in tr.tx.iter().filter(|x| x.d == d && x.step >= s.reg_step && x.idx < a.idx && x.if_index == Some(ifx) && x.v4 == v4) {
                        let Some(mm) = &x.msg else { continue };
                        if !mm.is_response() {
                            continue;
                        }
                        if mm.all_records().any(|r| r.ttl > 0 && (r.name.eq_ci(&s.fullname) || ptr_target(r).map(|n| n.eq_ci(&s.fullname)).unwrap_or(false))) {
                            j.fail("C07-R2", format!("response at t={} on {} carries records of {} before its first announcement at t={}: {}", x.t, chan, s.fullname.escaped(), a.t, wire::summarize(mm)));
                            break;
                        }
                    }
                    // probe: queries for it that arrived during probing stayed unanswered
                    if tr.rx.iter().any(|r| r.d == d && r.if_index == ifx && r.t_read.map(|t| t > s.reg_t && t < a.t).unwrap_or(false) && r.src != Src::Dut(d) && r.msg.as_ref().map(|mm| mm.is_query() && mm.questions.iter().any(|q| q.name.eq_ci(&s.fullname) || q.name.dotted() == s.ty.dotted())).unwrap_or(false)) {
                        j.probe("query-during-probing-unanswered");
                    }
                }
            }
        }
        j
    }
}

// ===================================================================== C09

pub struct C09;

impl Property for C09 {
    fn id(&self) -> &'static str {
        "C09"
    }
    fn count(&self, tier: Tier) -> u64 {
        match tier {
            Tier::Quick => 1200,
            Tier::Thorough => 25_000,
        }
    }
    fn rule_text(&self) -> &'static str {
        "seeded histories over 1-3 services x 1-3 interfaces x families: register, re-register, unregister (exact name, other letter case, unknown name, twice, 5-5000 ms after register: before probing finished, between the announcements, later), shutdown with services in every state; peer queries afterwards. Rules: reply OK iff registered (ci); on OK one TTL-0 packet per interface/family where the service had been announced with PTR (+subtype PTR), SRV, TXT, link addresses; nothing where it was never announced; identical repeat at +120 ms (unregister only); no later packet with a positive TTL for the service. Non-trivial = a world with an OK unregister or a shutdown of >= 1 announced service; distinct by schedule signature."
    }
    fn assumptions(&self) -> Vec<&'static str> {
        vec!["'announced on an interface' is read from the wire: the first response on that interface/family whose answers hold the service's SRV"]
    }
    fn expected_probes(&self) -> Vec<&'static str> {
        vec!["unregister-ok", "unregister-notfound", "unregister-other-case", "unregister-during-probing", "unregister-between-announcements", "shutdown-with-services", "goodbye-repeat-seen", "unregister-twice"]
    }
    fn gen(&self, seed: u64, index: u64, tier: Tier) -> Scenario {
        gen_world("C09", Flavor::C09, seed, index, tier)
    }
    fn judge(&self, scn: &Scenario, tr: &Trace) -> Judged {
        let mut j = Judged::default();
        let d = 0;
        let m = TxModel::build(scn, tr, d);
        let strict_run = scn.sched.max_latency == 0;
        let lat = sl(scn);
        let horizon = tr.stats.sim_ms;
        // R1: status replies
        let mut seen_names: Vec<String> = vec![];
        for (order, a) in tr.api.iter().enumerate() {
            if a.d != d || a.op == usize::MAX || a.outcome != ApiOutcome::Ok {
                continue;
            }
            let Op::Unregister { fullname, slot, .. } = &scn.ops[a.op].op else { continue };
            let Some(step) = super::model::consumed_in(&m.ds, a) else { continue };
            // registered at that moment? registered earlier in command order and not ended earlier in command order
            let target = m.svcs.iter().position(|s| {
                s.fullname.escaped().to_lowercase() == fullname.to_lowercase() && s.reg_order < order && s.end_order.map(|e| e >= order).unwrap_or(true) && (s.end_order != Some(order) || s.end_kind == Some("unregistered"))
            });
            let reply = tr.events.iter().find(|e| e.d == d && e.slot == *slot && matches!(e.ev, EvKind::UnregOk | EvKind::UnregNotFound));
            j.judgements += 1;
            if seen_names.contains(&fullname.to_lowercase()) {
                j.probe("unregister-twice");
            }
            seen_names.push(fullname.to_lowercase());
            let shut_before = scn.ops.iter().enumerate().any(|(i, o)| matches!(o.op, Op::Shutdown { .. }) && op_time(tr, i).map(|t| t <= a.t).unwrap_or(false));
            match (target, reply.map(|e| &e.ev)) {
                (Some(si), Some(EvKind::UnregOk)) => {
                    j.probe("unregister-ok");
                    j.nontrivial = true;
                    if m.svcs[si].fullname.escaped() != *fullname {
                        j.probe("unregister-other-case");
                    }
                }
                (None, Some(EvKind::UnregNotFound)) => j.probe("unregister-notfound"),
                (Some(_), Some(EvKind::UnregNotFound)) => j.fail("C09-R1", format!("unregister({}) at t={} answered NotFound although the service is registered", fullname, a.t)),
                (None, Some(EvKind::UnregOk)) => j.fail("C09-R1", format!("unregister({}) at t={} answered OK although no such service is registered", fullname, a.t)),
                (_, None) => {
                    if !shut_before && horizon > a.t + lat + 5 {
                        j.fail("C09-R1", format!("unregister({}) at t={} got no status reply", fullname, a.t));
                    }
                }
                _ => {}
            }
            // NotFound => no packet in that step caused by it: checked through R3 below (goodbyes for unknown services)
            let _ = step;
        }
        // R2..R5 per service that ended by unregister or shutdown
        for (si, s) in m.svcs.iter().enumerate() {
            let (Some(end_step), Some(end_t), Some(kind)) = (s.end_step, s.end_t, s.end_kind) else { continue };
            if kind == "replaced" {
                continue;
            }
            // renamed by conflict resolution (C08's subject)
            let was_renamed = tr.events.iter().any(|e| matches!(&e.ev, EvKind::MonNameChange { original, .. } if Name::from_dotted(original).eq_ci(&s.fullname) || Name::from_dotted(original).eq_ci(&s.host)))
                || tr.tx.iter().any(|x| x.d == d && x.step >= s.reg_step && x.step <= end_step && x.msg.as_ref().map(|mm| mm.is_query() && mm.questions.iter().any(|q| q.ty == wire::T_ANY && !q.name.eq_ci(&s.fullname) && q.name.0.len() == s.fullname.0.len() && q.name.0[1..] == s.fullname.0[1..] && q.name.0[0].starts_with(&s.fullname.0[0]))).unwrap_or(false));
            if was_renamed {
                j.abstained += 1;
                continue;
            }
            if kind == "shutdown" {
                j.probe("shutdown-with-services");
            }
            let cfg = &scn.duts[d];
            for (ifx, v4) in channels(&cfg.ifs, cfg.v4, cfg.v6) {
                let chan = format!("if{} {}", ifx, if v4 { "v4" } else { "v6" });
                let ann = m.first_announce(tr, si, ifx, v4).filter(|a| a.step <= end_step);
                // goodbyes in the ending step on this channel about this service
                let is_goodbye_of = |x: &Tx| -> bool {
                    x.d == d && x.if_index == Some(ifx) && x.v4 == v4 && x.msg.as_ref().map(|mm| mm.is_response() && mm.answers.iter().any(|r| r.ttl == 0 && (r.name.eq_ci(&s.fullname) || ptr_target(r).map(|n| n.eq_ci(&s.fullname)).unwrap_or(false)))).unwrap_or(false)
                };
                // (the repeat of the goodbye of an earlier registration of the same name may fall into the same step: it
                // carries that registration's SRV data, not this one's)
                let of_other_registration = |x: &Tx| -> bool {
                    let srv_here = m.srv_rec(s, 0, true);
                    let by_srv = x.msg.as_ref().map(|mm| mm.answers.iter().any(|r| r.ty == wire::T_SRV && r.name.eq_ci(&s.fullname) && !r.same_data(&srv_here)) && m.svcs.iter().enumerate().any(|(k, o)| k != si && o.fullname.eq_ci(&s.fullname) && mm.answers.iter().any(|r| r.ty == wire::T_SRV && r.same_data(&m.srv_rec(o, 0, true))))).unwrap_or(false);
                    // (... or, when the re-registration kept the port, that registration's TXT)
                    let by_txt = x.msg.as_ref().map(|mm| mm.answers.iter().any(|r| r.ty == wire::T_TXT && r.name.eq_ci(&s.fullname) && !matches!(&r.rdata, wire::RData::Txt(b) if *b == s.txt)) && m.svcs.iter().enumerate().any(|(k, o)| k != si && o.fullname.eq_ci(&s.fullname) && mm.answers.iter().any(|r| r.ty == wire::T_TXT && r.name.eq_ci(&s.fullname) && matches!(&r.rdata, wire::RData::Txt(b) if *b == o.txt)))).unwrap_or(false);
                    by_srv || by_txt
                };
                let gb: Vec<&Tx> = tr.tx.iter().filter(|x| x.step == end_step && is_goodbye_of(x) && !of_other_registration(x)).collect();
                j.judgements += 1;
                match ann {
                    Some(a) => {
                        j.nontrivial = true;
                        if a.t + 1000 > end_t && a.t < end_t {
                            j.probe("unregister-between-announcements");
                        }
                        // R2: exactly one goodbye with the full record set, TTL 0
                        if gb.len() != 1 {
                            j.fail("C09-R2", format!("{} of {} at t={}: expected one goodbye on {} (announced there at t={}), saw {}", kind, s.fullname.escaped(), end_t, chan, a.t, gb.len()));
                            continue;
                        }
                        let mm = gb[0].msg.as_ref().unwrap();
                        let fam_addrs = m.link_addrs(scn, s, ifx, v4);
                        let mut want: Vec<Rec> = vec![Rec::ptr(&s.ty, &s.fullname, 0), m.srv_rec(s, 0, true), Rec::txt(&s.fullname, s.txt.clone(), 0, true)];
                        if let Some(sub) = &s.sub {
                            want.push(Rec::ptr(sub, &s.fullname, 0));
                        }
                        for ip in &fam_addrs {
                            want.push(match ip {
                                IpAddr::V4(x) => Rec::a(&s.host, x.octets(), 0, true),
                                IpAddr::V6(x) => Rec::aaaa(&s.host, x.octets(), 0, true),
                            });
                        }
                        for w in &want {
                            if !has_rec(&mm.answers, w) {
                                j.fail("C09-R2", format!("goodbye of {} on {} at t={} lacks {}:{}: {}", s.fullname.escaped(), chan, end_t, w.name.escaped(), wire::ty_name(w.ty), wire::summarize(mm)));
                                break;
                            }
                        }
                        if let Some(r) = mm.all_records().find(|r| r.ttl != 0) {
                            j.fail("C09-R2", format!("goodbye of {} on {} at t={} carries {}:{} with TTL {}", s.fullname.escaped(), chan, end_t, r.name.escaped(), wire::ty_name(r.ty), r.ttl));
                        }
                        if let Some(r) = mm.all_records().find(|r| !want.iter().any(|w| w.same_data(r))) {
                            j.fail("C09-R3", format!("goodbye of {} on {} at t={} withdraws a record that is not part of the service on this link: {}:{} {:?}", s.fullname.escaped(), chan, end_t, r.name.escaped(), wire::ty_name(r.ty), r.rdata));
                        }
                        // R4: the repeat
                        if kind == "unregistered" && horizon > end_t + 120 + lat + 1 {
                            let shut = scn.ops.iter().enumerate().any(|(i, o)| matches!(o.op, Op::Shutdown { .. }) && op_time(tr, i).map(|t| t <= end_t + 120 + lat).unwrap_or(false));
                            let reborn_step = m.svcs.iter().filter(|o| o.fullname.eq_ci(&s.fullname) && o.reg_order > s.reg_order).map(|o| o.reg_step).min().unwrap_or(usize::MAX);
                            let _ = reborn_step;
                            // the repeat is byte-identical; goodbyes with other content belong to a later registration of the name
                            let reps: Vec<&Tx> = tr.tx.iter().filter(|x| x.step > end_step && is_goodbye_of(x) && x.bytes == gb[0].bytes).collect();
                            if !shut {
                                j.judgements += 1;
                                let on_time = reps.iter().filter(|x| x.t >= end_t + 120 && x.t <= end_t + 120 + lat && x.bytes == gb[0].bytes).count();
                                if on_time != 1 || reps.len() != 1 {
                                    j.fail("C09-R4", format!("unregister of {} at t={}: expected the identical goodbye once more on {} at t={}{}; repeats seen at {:?}", s.fullname.escaped(), end_t, chan, end_t + 120, if strict_run { "" } else { " (+latency)" }, reps.iter().map(|x| x.t).collect::<Vec<_>>()));
                                } else {
                                    j.probe("goodbye-repeat-seen");
                                }
                            }
                        }
                    }
                    None => {
                        // R3: never announced here => no goodbye here
                        if s.reg_t + 750 > end_t {
                            j.probe("unregister-during-probing");
                        }
                        if let Some(x) = gb.first() {
                            j.fail("C09-R3", format!("{} of {} at t={}: goodbye sent on {} where the service was never announced (registered at t={}): {}", kind, s.fullname.escaped(), end_t, chan, s.reg_t, wire::summarize(x.msg.as_ref().unwrap())));
                        }
                    }
                }
                // R5: quiet afterwards (until a later registration of the same name)
                let reborn = m.svcs.iter().filter(|o| o.fullname.eq_ci(&s.fullname) && o.reg_order > s.reg_order).map(|o| o.reg_step).min();
                for x in tr.tx.iter().filter(|x| x.d == d && x.step > end_step && reborn.map(|r| x.step < r).unwrap_or(true) && x.if_index == Some(ifx) && x.v4 == v4) {
                    let Some(mm) = &x.msg else { continue };
                    if mm.is_response() && mm.all_records().any(|r| r.ttl > 0 && (r.name.eq_ci(&s.fullname) || ptr_target(r).map(|n| n.eq_ci(&s.fullname)).unwrap_or(false))) {
                        j.fail("C09-R5", format!("after {} of {} at t={} the daemon still sent its records on {} at t={}: {}", kind, s.fullname.escaped(), end_t, chan, x.t, wire::summarize(mm)));
                        break;
                    }
                }
            }
        }
        j
    }
}

// ===================================================================== C10 (responder side; the querier side is in c10q.rs)

pub fn judge_c10_responder(scn: &Scenario, tr: &Trace) -> Judged {
    judge_queries(scn, tr, true)
}
