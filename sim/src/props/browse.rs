//! Browse-side worlds shared by C03 (soundness of ServiceResolved), C04 (completeness,
//! follow-up queries) and C05 (removals): one DUT browsing, scripted peers that
//! announce, update, say goodbye, vanish and come back, under loss / duplication /
//! reordering / wake latency.

use super::common::*;
use super::model::*;
use super::{Judged, Property, Tier};
use crate::rng::{mix, Rng};
use crate::scenario::*;
use crate::trace::*;
use crate::wire::{self, Msg, Name, RData, Rec};
use serde_json::json;
use std::net::IpAddr;

#[derive(Clone, Copy, PartialEq, Eq)]
pub enum Flavor {
    C03,
    C04,
    C05,
}

const TTLS_OTHER: [u32; 7] = [2, 5, 10, 60, 120, 600, 4500];
const TTLS_HOST: [u32; 6] = [2, 5, 10, 30, 60, 120];

fn split_packets(rng: &mut Rng, recs: &[Rec]) -> Vec<Vec<Rec>> {
    // random partition into 1..=3 packets, random order
    let n = 1 + rng.below(3) as usize;
    let mut parts: Vec<Vec<Rec>> = vec![vec![]; n];
    for r in recs {
        let k = rng.below(n as u64) as usize;
        parts[k].push(r.clone());
    }
    parts.retain(|p| !p.is_empty());
    rng.shuffle(&mut parts);
    parts
}

fn to_msg(rng: &mut Rng, recs: &[Rec]) -> Msg {
    // answers vs additionals placement: PTR (if any) in answers; others randomly in additionals
    let mut m = Msg::response();
    let has_ptr = recs.iter().any(|r| r.ty == wire::T_PTR);
    for r in recs {
        if r.ty == wire::T_PTR || !has_ptr || rng.bool() {
            m.answers.push(r.clone());
        } else {
            m.additionals.push(r.clone());
        }
    }
    // mixed with records of other names: the announcement of a service of another (not browsed) type follows ours
    // in the same packet
    if has_ptr && rng.below(4) == 0 {
        let oty = Name::from_dotted("_workstation._tcp.local.");
        let oinst = Name::from_dotted("ws._workstation._tcp.local.");
        m.answers.push(Rec::ptr(&oty, &oinst, 4500));
        if rng.bool() {
            m.answers.push(Rec::txt(&oinst, vec![0], 4500, true));
        }
    }
    m
}

pub fn gen_browse_world(prop: &str, flavor: Flavor, seed: u64, index: u64, tier: Tier) -> Scenario {
    let rs = mix(seed, index);
    let mut rng = Rng::new(rs, 0xB0);
    let profile = match index % 5 {
        0 | 1 => "strict",
        2 => "latency",
        3 => "lossy",
        _ => "lossy-latency",
    };
    let mut s = Scenario::new(prop, profile, rs);
    strict(&mut s);
    if profile.contains("lossy") {
        s.net.drop_pm = [50, 150, 300][rng.below(3) as usize];
        s.net.dup_pm = [0, 100, 200][rng.below(3) as usize];
        s.net.late_pm = [0, 100, 300][rng.below(3) as usize];
        s.net.late_max_ms = [200, 3000, 15_000][rng.below(3) as usize];
        s.net.jitter_ms = rng.below(20);
    }
    if profile.contains("latency") {
        s.sched.max_latency = [5, 20, 100][rng.below(3) as usize];
        s.sched.spurious_pm = [0, 50][rng.below(2) as usize];
        s.sched.one_per_step = rng.below(3) == 0;
    }
    s.net.self_loop = rng.below(4) != 0;
    // DUT: one or two v4/dual interfaces
    let n_if = 1 + rng.below(2) as usize;
    // (C03: in one world in seven with two interfaces both are on the same LAN - same segment, same IPv4 subnet, e.g. wired
    // and wireless - so that every packet, and with it every address record, is received on both. Decided from the index, not
    // from the PRNG, so that all other worlds stay as they were.)
    let same_lan = flavor == Flavor::C03 && n_if == 2 && index % 7 == 3;
    let mut ifs = vec![];
    for i in 0..n_if {
        let mut v4 = format!("192.168.{}.10", 1 + i);
        let mut v6 = format!("fe80::{:x}:10", 1 + i);
        let dual = rng.below(3) == 0;
        let mut seg = i;
        if same_lan && i == 1 {
            v4 = "192.168.1.11".to_string();
            v6 = "fe80::1:11".to_string();
            seg = 0;
        }
        ifs.push(simple_if(&format!("eth{i}"), 2 + i as u32, Some((&v4, 24)), if dual { Some((&v6, 64)) } else { None }, seg));
    }
    s.duts.push(DutCfg { ifs: ifs.clone(), v4: true, v6: true, epoch_off: [0i64, 0, 86_400_000, -3_600_000][rng.below(4) as usize], yields: false });
    s.op(0, Op::SetIpCheck { d: 0, secs: HUGE_IP_CHECK_SECS });
    let n_types = 1 + rng.below(2);
    let mut slot = 10;
    let mut types = vec![];
    for k in 0..n_types {
        let ty = ty_name(k + rng.below(2) * 3);
        if types.contains(&ty) {
            continue;
        }
        s.op(rng.below(1500), Op::Browse { d: 0, ty: ty.clone(), slot });
        slot += 1;
        types.push(ty);
    }
    // peers and instances
    let n_peers = 1 + rng.below(3) as usize;
    let mut max_ttl = 0u32;
    let mut last_event = 0u64;
    let mut instances = vec![];
    for p in 0..n_peers {
        let seg = rng.below(n_if as u64) as usize;
        let seg = if same_lan { 0 } else { seg };
        let dual_if = ifs[seg].addrs.len() > 1;
        let host_octet = 50 + p as u8;
        let mut peer = PeerCfg { seg, v4: Some(format!("192.168.{}.{}", 1 + seg, host_octet)), v6: if dual_if { Some(format!("fe80::{:x}:{:x}", 1 + seg, host_octet)) } else { None }, responder: None };
        let n_inst = 1 + rng.below(2);
        // (host names with ASCII and non-ASCII capital letters among them)
        let host = format!("{}{}.local.", ["hostp", "Box", "node-", "hostp", "Box", "node-", "BÜRO-PC", "Ελληνικά-"][rng.below(8) as usize], p);
        let mut all_recs: Vec<Rec> = vec![];
        let answers_queries = rng.below(3) != 0;
        for k in 0..n_inst {
            let ty = types[rng.below(types.len() as u64) as usize].clone();
            let label = format!("{}{}-{}", ["svc", "My Printer ", "dev_"][rng.below(3) as usize], p, k);
            let ttl_o = TTLS_OTHER[rng.below(if flavor == Flavor::C04 { 4 } else { 7 } ) as usize + if flavor == Flavor::C04 { 3 } else { 0 }];
            let ttl_h = TTLS_HOST[rng.below(if flavor == Flavor::C04 { 3 } else { 6 }) as usize + if flavor == Flavor::C04 { 3 } else { 0 }];
            // (C04: one instance in eight carries a short TTL - 2, 5 or 10 s - on its PTR and TXT; only the ServiceFound
            // rule is judged for it. Chosen from the world's index, not from the PRNG, so that all other worlds stay as they were.)
            let ttl_o = if flavor == Flavor::C04 && (index + 7 * p as u64 + 3 * k) % 8 == 0 { [2, 5, 10][((index / 8) % 3) as usize] } else { ttl_o };
            max_ttl = max_ttl.max(ttl_o).max(ttl_h);
            let a4 = format!("192.168.{}.{}", 1 + seg, host_octet);
            let a4b = format!("192.168.{}.{}", 1 + seg, 100 + host_octet);
            let a6 = format!("fe80::{:x}:{:x}", 1 + seg, host_octet);
            let mut v4s = vec![a4.as_str()];
            if rng.below(4) == 0 {
                v4s.push(a4b.as_str());
            }
            let v6s: Vec<&str> = if dual_if && rng.bool() { vec![a6.as_str()] } else { vec![] };
            let txt = if rng.bool() { wire::txt_encode(&[("k".into(), Some(format!("v{k}").into_bytes())), ("flag".into(), None)]) } else { vec![0] };
            let ir = instance_recs(&ty, &label, &host, 8000 + k as u16, &v4s, &v6s, txt, ttl_o, ttl_h);
            // announce
            let t_a = 1600 + rng.below(3000);
            let family_v4 = true;
            let parts = split_packets(&mut rng, &ir.all());
            let mut t = t_a;
            for part in parts {
                s.op(t, Op::PeerSend { p, v4: family_v4, sport: 5353, msg: to_msg(&mut rng, &part), to: Dest::Mcast });
                t += [0, 1, 40, 250, 900][rng.below(5) as usize];
            }
            last_event = last_event.max(t);
            for r in ir.all() {
                if !all_recs.contains(&r) {
                    all_recs.push(r);
                }
            }
            // later history
            let mut t_ev = t + 500 + rng.below(4000);
            let n_ev = rng.below(4);
            let mut cur = ir.clone();
            // how updates travel: alone, or inside the announcement of another (non-browsed) service type of the
            // same host, whose PTR leads the answer section
            let foreign_wrap = |rng: &mut Rng, recs: &[Rec], host: &Name| -> Msg {
                if rng.below(3) != 0 {
                    return announce(recs);
                }
                let oty = Name::from_dotted("_workstation._tcp.local.");
                let oinst = Name::from_dotted("ws._workstation._tcp.local.");
                let mut m = Msg::response();
                m.answers.push(Rec::ptr(&oty, &oinst, 4500));
                m.answers.push(Rec::srv(&oinst, host, 9, 120, true));
                for r in recs {
                    if rng.bool() {
                        m.answers.push(r.clone());
                    } else {
                        m.additionals.push(r.clone());
                    }
                }
                m
            };
            for _ in 0..n_ev {
                // sometimes an update follows the previous packet within a second (no displacement by cache-flush then),
                // or comes without the cache-flush bit
                if rng.below(5) == 0 {
                    t_ev = t + 50 + rng.below(900);
                }
                let fl = rng.below(6) != 0;
                match rng.below(if flavor == Flavor::C04 { 3 } else { 8 }) {
                    0 => {
                        // update port with cache-flush SRV
                        let (tgt, port) = srv_target(&cur.srv).map(|(t, p)| (t.clone(), p)).unwrap();
                        let new_srv = Rec::srv(&cur.inst, &tgt, port + 100, cur.srv.ttl, fl);
                        s.op(t_ev, Op::PeerSend { p, v4: true, sport: 5353, msg: foreign_wrap(&mut rng, &[new_srv.clone()], &cur.host), to: Dest::Mcast });
                        all_recs.retain(|r| r != &cur.srv);
                        all_recs.push(new_srv.clone());
                        cur.srv = new_srv;
                    }
                    1 => {
                        // update TXT
                        let new_txt = Rec::txt(&cur.inst, wire::txt_encode(&[("k".into(), Some(format!("u{}", t_ev).into_bytes()))]), cur.txt.ttl, fl);
                        s.op(t_ev, Op::PeerSend { p, v4: true, sport: 5353, msg: foreign_wrap(&mut rng, &[new_txt.clone()], &cur.host), to: Dest::Mcast });
                        all_recs.retain(|r| r != &cur.txt);
                        all_recs.push(new_txt.clone());
                        cur.txt = new_txt;
                    }
                    2 => {
                        // address change with cache-flush
                        let new_ip = format!("192.168.{}.{}", 1 + seg, 150 + rng.below(50));
                        let new_a = Rec::a(&cur.host, ip4(&new_ip), cur.addrs[0].ttl, true);
                        s.op(t_ev, Op::PeerSend { p, v4: true, sport: 5353, msg: foreign_wrap(&mut rng, &[new_a.clone()], &cur.host), to: Dest::Mcast });
                        if rng.bool() {
                            // a later TXT-only refresh triggers a new event after the displaced address must be gone
                            s.op(t_ev + 1100 + rng.below(3000), Op::PeerSend { p, v4: true, sport: 5353, msg: announce(&[cur.txt.clone()]), to: Dest::Mcast });
                        }
                        for a in cur.addrs.iter().filter(|a| a.ty == wire::T_A) {
                            all_recs.retain(|r| r != a);
                        }
                        cur.addrs.retain(|a| a.ty != wire::T_A);
                        cur.addrs.push(new_a.clone());
                        all_recs.push(new_a);
                    }
                    3 | 4 => {
                        // goodbye: everything, or a single record class
                        let what = rng.below(4);
                        let recs: Vec<Rec> = match what {
                            0 => cur.all(),
                            1 => vec![cur.ptr.clone()],
                            2 => vec![cur.srv.clone()],
                            _ => cur.addrs.clone(),
                        };
                        let mut gb = goodbye(&recs);
                        // (C03 only, decided from index and time: the TXT record alone is withdrawn, and the same packet brings a
                        // further address of the host, so that the daemon reports the instance again while its newest TXT is dying)
                        let txt_gb = flavor == Flavor::C03 && what >= 2 && (index + t_ev) % 3 == 0;
                        if txt_gb {
                            gb = goodbye(&[cur.txt.clone()]);
                            let extra = Rec::a(&cur.host, ip4(&format!("192.168.{}.{}", 1 + seg, 200 + p as u8)), cur.srv.ttl, false);
                            gb.answers.push(extra.clone());
                            if !cur.addrs.contains(&extra) {
                                cur.addrs.push(extra.clone());
                                all_recs.push(extra);
                            }
                            all_recs.retain(|r| r != &cur.txt);
                        } else if what >= 2 && rng.below(3) == 0 {
                            // the same packet carries a changed TXT of the instance: the daemon looks at the instance again in
                            // the very step (and millisecond) in which it stored the goodbye
                            let new_txt = Rec::txt(&cur.inst, wire::txt_encode(&[("k".into(), Some(format!("g{}", t_ev).into_bytes()))]), cur.txt.ttl, true);
                            gb.answers.push(new_txt.clone());
                            all_recs.retain(|r| r != &cur.txt);
                            all_recs.push(new_txt.clone());
                            cur.txt = new_txt;
                        }
                        s.op(t_ev, Op::PeerSend { p, v4: true, sport: 5353, msg: gb, to: Dest::Mcast });
                        if rng.bool() {
                            // the peer really left: stop answering
                            s.op(t_ev, Op::PeerActive { p, on: false });
                        }
                        if rng.below(3) == 0 {
                            // an old copy of the announcement arrives late, after the goodbye
                            s.op(t_ev + 200 + rng.below(2500), Op::PeerSend { p, v4: true, sport: 5353, msg: announce(&cur.all()), to: Dest::Mcast });
                        }
                    }
                    5 => {
                        // vanish silently
                        s.op(t_ev, Op::PeerActive { p, on: false });
                    }
                    6 => {
                        // come back / re-announce
                        s.op(t_ev, Op::PeerActive { p, on: true });
                        s.op(t_ev + 1, Op::PeerSend { p, v4: true, sport: 5353, msg: announce(&cur.all()), to: Dest::Mcast });
                    }
                    _ => {
                        if flavor == Flavor::C05 || rng.below(3) == 0 {
                            let timeout_ms = [0u64, 1, 500, 1000, 3000, 10_000, 60_000][rng.below(7) as usize];
                            s.op(t_ev, Op::Verify { d: 0, instance: cur.inst.dotted(), timeout_ms });
                        }
                    }
                }
                last_event = last_event.max(t_ev);
                t_ev += 300 + rng.below((max_ttl as u64 * 1500).max(3000));
            }
            instances.push(json!({"peer": p, "instance": ir.inst.dotted(), "host": ir.host.dotted(), "ty": ty}));
        }
        if answers_queries {
            if flavor == Flavor::C05 && rng.below(5) == 0 {
                // the responder answers for the service but not for the host: address questions (refresh queries and
                // the address part of a verify request) stay unanswered
                all_recs.retain(|r| !matches!(r.ty, wire::T_A | wire::T_AAAA));
            }
            peer.responder = Some(ResponderCfg { records: all_recs, delay_ms: 20 + rng.below(100), honor_known_answers: rng.bool(), additionals: rng.bool(), active: true, max_answers: None, skip_first: 0, conflict_probes: 0 });
        }
        s.peers.push(peer);
    }
    // horizon: several TTLs after the last scripted event, bounded
    let mult = match tier {
        Tier::Quick => 3,
        Tier::Thorough => 10,
    };
    s.horizon_ms = (last_event + (max_ttl as u64) * 1000 * mult + 5000).min(8 * 3600_000);
    if flavor == Flavor::C04 {
        s.horizon_ms = s.horizon_ms.min(last_event + 30_000);
    }
    s.max_steps = match tier {
        Tier::Quick => 5_000,
        Tier::Thorough => 30_000,
    };
    s.params = json!({"instances": instances});
    s.sort_ops();
    s
}

fn slack(scn: &Scenario) -> u64 {
    scn.sched.max_latency + 2
}

fn iface_present(scn: &Scenario, idx: u32) -> bool {
    scn.duts[0].ifs.iter().any(|i| i.index == idx)
}

// ===================================================================== C03

pub struct C03;

impl Property for C03 {
    fn id(&self) -> &'static str {
        "C03"
    }
    fn count(&self, tier: Tier) -> u64 {
        match tier {
            Tier::Quick => 1500,
            Tier::Thorough => 30_000,
        }
    }
    fn rule_text(&self) -> &'static str {
        "seeded histories: a DUT (1-2 interfaces, v4/dual, clock offset) browses 1-2 types; 1-3 scripted peers own 1-2 instances each (some sharing a host), announce in 1-3 packets in random order and section placement, then update port/TXT/address with cache-flush, say goodbye (all / single record), vanish, come back, resend stale announcements; TTLs 2 s..75 min; profiles strict, latency (wake latency <= 100 ms, spurious wakes, one datagram per step), lossy (drop <= 30 %, duplicates, delays up to 15 s), both. Every ServiceResolved is judged against the receive model. Non-trivial = a run with >= 1 ServiceResolved judged after some record of that instance or host had already expired, been withdrawn or been displaced; distinct by schedule signature."
    }
    fn assumptions(&self) -> Vec<&'static str> {
        vec![
            "the receive model is derived from the delivered packets and the statement (TTL from last arrival, TTL 0 = 1 s, cache-flush 1 s rule, verify deadline); 'possibly live' over-approximates, so only use of a record that no delivery can justify is flagged",
            "peer packets are built by the independent codec; record TTL arithmetic uses the daemon's own (offset) clock only through differences",
        ]
    }
    fn expected_probes(&self) -> Vec<&'static str> {
        vec!["resolved-after-expiry-of-sibling", "late-duplicate-after-goodbye", "address-flushed", "srv-updated"]
    }
    fn gen(&self, seed: u64, index: u64, tier: Tier) -> Scenario {
        gen_browse_world("C03", Flavor::C03, seed, index, tier)
    }
    fn judge(&self, scn: &Scenario, tr: &Trace) -> Judged {
        let mut j = Judged::default();
        let d = 0;
        let m = RxModel::build(scn, tr, d);
        let sl = slack(scn);
        for e in tr.events.iter().filter(|e| e.d == d) {
            let EvKind::Resolved(r) = &e.ev else { continue };
            j.judgements += 1;
            let t = e.t;
            let fullname = Name::from_dotted(&r.fullname);
            let host = Name::from_dotted(&r.host);
            // R4
            if r.host.is_empty() || r.addrs.is_empty() {
                j.fail("C03-R4", format!("ServiceResolved({}) at t={} without host or address: host={:?} addrs={:?}", r.fullname, t, r.host, r.addrs));
                continue;
            }
            // R1: SRV
            let srvs = m.find(&fullname, wire::T_SRV);
            let ok = srvs.iter().any(|&i| match &m.recs[i].rec.rdata {
                RData::Srv { port, target, .. } => *port == r.port && target.eq_ci(&host) && m.live_at(i, t, None, Mode::Possibly, sl),
                _ => false,
            });
            if !ok {
                let seen: Vec<String> = srvs
                    .iter()
                    .map(|&i| format!("{:?} last arrivals={:?} life intervals={:?}", m.recs[i].rec.rdata, m.recs[i].arrivals.iter().rev().take(6).map(|a| (a.t, a.ttl)).collect::<Vec<_>>(), m.intervals(i, None, Mode::Possibly).iter().rev().take(3).collect::<Vec<_>>()))
                    .collect();
                j.fail(
                    "C03-R1",
                    format!("ServiceResolved({}) at t={} shows host={} port={} but no SRV with these values is live in the receive model; SRV history: {:?}", r.fullname, t, r.host, r.port, seen),
                );
            }
            // R1b: "as the network last advertised it": when another SRV of the instance first arrived after every
            // arrival of the SRV shown, and is certainly live, the event must show that one
            if ok {
                let shown: Vec<usize> = srvs.iter().copied().filter(|&i| matches!(&m.recs[i].rec.rdata, RData::Srv { port, target, .. } if *port == r.port && target.eq_ci(&host))).collect();
                let shown_last = shown.iter().flat_map(|&i| m.recs[i].arrivals.iter().filter(|a| a.step <= e.step).map(|a| a.step)).max();
                if let Some(sl_step) = shown_last {
                    for &k in srvs.iter().filter(|k| !shown.contains(k)) {
                        let first_certain = m.recs[k].arrivals.iter().filter(|a| a.step <= e.step).map(|a| a.step).min();
                        let all_certain = m.recs[k].arrivals.iter().filter(|a| a.step <= e.step).all(|a| a.certain);
                        if let Some(fk) = first_certain {
                            if fk > sl_step && fk < e.step && all_certain && m.live_at_s(k, t, e.step, None, Mode::Definitely, sl + 1001) {
                                j.fail("C03-R1", format!("ServiceResolved({}) at t={} shows host={} port={} from an SRV last received in step {} although a different SRV ({:?}) was received later (step {}) and is still live: the event does not describe the instance as last advertised", r.fullname, t, r.host, r.port, sl_step, m.recs[k].rec.rdata, fk));
                            }
                        }
                    }
                }
            }
            // R6: nothing that was withdrawn by a goodbye: the last copy of the record the daemon read (in an earlier step, or
            // in this one) must not be a goodbye
            {
                let withdrawn = |i: usize, ifx: Option<u32>| -> Option<u64> {
                    let on = |x: &&Arrival| ifx.map(|f| f == x.if_index).unwrap_or(true);
                    // several packets may be read in one step and the event may have been built between two of them: a live
                    // copy read in the event's own step leaves the order open
                    if m.recs[i].arrivals.iter().filter(on).any(|x| x.step == e.step && x.ttl > 0) {
                        return None;
                    }
                    let last = m.recs[i].arrivals.iter().filter(|x| x.step <= e.step).filter(on).max_by_key(|x| (x.step, x.rx));
                    match last {
                        // (a goodbye read in the event's own step counts only when it came in the only datagram of that step:
                        // otherwise the event may have been built after an earlier datagram and before this one - the rule on a
                        // LAN that is reached through two interfaces, where every packet is read twice)
                        Some(x) if x.step == e.step && tr.rx.iter().filter(|r| r.d == d && r.step == Some(e.step)).count() > 1 => None,
                        Some(x) if x.ttl == 0 && x.certain && !x.corrupted => Some(x.t),
                        _ => None,
                    }
                };
                let srvs: Vec<usize> = m.find(&fullname, wire::T_SRV).into_iter().filter(|&i| matches!(srv_target(&m.recs[i].rec), Some((h, p)) if h.eq_ci(&host) && p == r.port)).collect();
                if !srvs.is_empty() && srvs.iter().all(|&i| withdrawn(i, None).is_some()) {
                    j.fail("C03-R6", format!("ServiceResolved({}) at t={} shows host={} port={} although the SRV record that says so was withdrawn by a goodbye read at t={}", r.fullname, t, r.host, r.port, withdrawn(srvs[0], None).unwrap()));
                }
                if !r.txt.is_empty() {
                    let shown: Vec<usize> = m.find(&fullname, wire::T_TXT).into_iter().filter(|&i| matches!(&m.recs[i].rec.rdata, RData::Txt(b) if wire::txt_decode_unique(b) == r.txt) && m.recs[i].arrivals.iter().any(|x| x.step <= e.step)).collect();
                    if !shown.is_empty() && shown.iter().all(|&i| withdrawn(i, None).is_some()) {
                        j.probe("txt-withdrawn-judged");
                        j.fail("C03-R6", format!("ServiceResolved({}) at t={} shows TXT properties {:?} although the TXT record that carries them was withdrawn by a goodbye read at t={}", r.fullname, t, r.txt, withdrawn(shown[0], None).unwrap()));
                    }
                }
                for a in &r.addrs {
                    let ty = if a.ip.is_ipv4() { wire::T_A } else { wire::T_AAAA };
                    for (_, ifx) in &a.intfs {
                        let cands: Vec<usize> = m.find(&host, ty).into_iter().filter(|&i| rec_ip(&m.recs[i].rec) == Some(a.ip) && m.recs[i].arrivals.iter().any(|x| x.if_index == *ifx && x.step <= e.step)).collect();
                        if !cands.is_empty() && cands.iter().all(|&i| withdrawn(i, Some(*ifx)).is_some()) {
                            j.fail("C03-R6", format!("ServiceResolved({}) at t={} lists {} (if{}) although that address record was withdrawn by a goodbye read at t={}", r.fullname, t, a.ip, ifx, withdrawn(cands[0], Some(*ifx)).unwrap()));
                        }
                    }
                }
            }
            // R2: addresses
            for a in &r.addrs {
                let ty = if a.ip.is_ipv4() { wire::T_A } else { wire::T_AAAA };
                let cands: Vec<usize> = m.find(&host, ty).into_iter().filter(|&i| rec_ip(&m.recs[i].rec) == Some(a.ip)).collect();
                if a.intfs.is_empty() {
                    j.fail("C03-R2", format!("ServiceResolved({}) at t={}: address {} carries no interface tag", r.fullname, t, a.ip));
                }
                for (ifname, ifx) in &a.intfs {
                    let ok = cands.iter().any(|&i| m.live_at(i, t, Some(*ifx), Mode::Possibly, sl));
                    if !ok || !iface_present(scn, *ifx) {
                        let seen: Vec<String> = cands
                            .iter()
                            .map(|&i| format!("last arrivals={:?} life intervals={:?}", m.recs[i].arrivals.iter().rev().take(6).map(|x| (x.t, x.ttl, x.if_index)).collect::<Vec<_>>(), m.intervals(i, Some(*ifx), Mode::Possibly).iter().rev().take(3).collect::<Vec<_>>()))
                            .collect();
                        j.fail(
                            "C03-R2",
                            format!("ServiceResolved({}) at t={}: address {} tagged {}({}) is not justified by a live A/AAAA record for {} received on that interface; history: {:?}", r.fullname, t, a.ip, ifname, ifx, r.host, seen),
                        );
                    }
                }
            }
            // R3: TXT
            if !r.txt.is_empty() {
                let txts = m.find(&fullname, wire::T_TXT);
                let ok = txts.iter().any(|&i| match &m.recs[i].rec.rdata {
                    RData::Txt(b) => wire::txt_decode_unique(b) == r.txt && m.live_at(i, t, None, Mode::Possibly, sl),
                    _ => false,
                });
                if !ok {
                    j.fail("C03-R3", format!("ServiceResolved({}) at t={}: TXT properties {:?} do not equal the reference decoding of any live TXT record received for it", r.fullname, t, r.txt));
                } else {
                    // R3b: the most recently advertised TXT
                    let shown: Vec<usize> = txts.iter().copied().filter(|&i| matches!(&m.recs[i].rec.rdata, RData::Txt(b) if wire::txt_decode_unique(b) == r.txt)).collect();
                    let shown_last = shown.iter().flat_map(|&i| m.recs[i].arrivals.iter().filter(|a| a.step <= e.step).map(|a| a.step)).max();
                    if let Some(sl_step) = shown_last {
                        for &k in txts.iter().filter(|k| !shown.contains(k)) {
                            let fk = m.recs[k].arrivals.iter().filter(|a| a.step <= e.step).map(|a| a.step).min();
                            let all_certain = m.recs[k].arrivals.iter().filter(|a| a.step <= e.step).all(|a| a.certain);
                            if let Some(fk) = fk {
                                if fk > sl_step && fk < e.step && all_certain && m.live_at_s(k, t, e.step, None, Mode::Definitely, sl + 1001) {
                                    j.fail("C03-R3", format!("ServiceResolved({}) at t={} shows TXT {:?} last received in step {} although a different TXT was received later (step {}) and is still live", r.fullname, t, r.txt, sl_step, fk));
                                }
                            }
                        }
                    }
                }
            }
            // R5: subtype
            if let Some(sub) = &r.sub {
                let subn = Name::from_dotted(sub);
                let ok = m.find(&subn, wire::T_PTR).iter().any(|&i| ptr_target(&m.recs[i].rec).map(|n| n.eq_ci(&fullname)).unwrap_or(false) && m.recs[i].arrivals.iter().any(|a| a.t <= t));
                if !ok {
                    j.fail("C03-R5", format!("ServiceResolved({}) at t={} reports subtype {} that was never received as a PTR for it", r.fullname, t, sub));
                }
            }
            // non-triviality and probes
            let mut any_dead = false;
            for (i, h) in m.recs.iter().enumerate() {
                let related = (h.rec.name.eq_ci(&fullname) && matches!(h.rec.ty, wire::T_SRV | wire::T_TXT)) || (h.rec.name.eq_ci(&host) && matches!(h.rec.ty, wire::T_A | wire::T_AAAA));
                if related && h.arrivals.iter().any(|a| a.t < t) && !m.live_at(i, t, None, Mode::Possibly, 0) {
                    any_dead = true;
                    if matches!(h.rec.ty, wire::T_A | wire::T_AAAA) {
                        j.probe("address-flushed");
                    }
                    if h.rec.ty == wire::T_SRV {
                        j.probe("srv-updated");
                    }
                }
            }
            if any_dead {
                j.nontrivial = true;
                j.probe("resolved-after-expiry-of-sibling");
            }
        }
        // probe: late duplicate of an older announcement delivered after a goodbye
        for h in &m.recs {
            let mut seen_gb = false;
            for a in &h.arrivals {
                if a.ttl == 0 {
                    seen_gb = true;
                } else if seen_gb {
                    j.probe("late-duplicate-after-goodbye");
                    break;
                }
            }
        }
        j.abstained += m.maybe_packets;
        j
    }
}

// ===================================================================== C04

pub struct C04;

/// true if the instance has PTR (for an open browse), SRV, TXT and an address of the SRV host
/// all definitely live at time t. Returns the step/time detail for messages.
fn complete_at(m: &RxModel, ty: &Name, inst: &Name, t: u64, st: usize, sl: u64) -> Option<(usize, Name)> {
    let ptr_ok = m.find(ty, wire::T_PTR).into_iter().any(|i| ptr_target(&m.recs[i].rec).map(|n| n.eq_ci(inst)).unwrap_or(false) && m.recs[i].arrivals.iter().any(|a| a.ttl > 1) && m.live_at_s(i, t, st, None, Mode::Definitely, sl + 1000));
    if !ptr_ok {
        return None;
    }
    let srv = m.find(inst, wire::T_SRV).into_iter().find(|&i| m.live_at_s(i, t, st, None, Mode::Definitely, sl + 1000))?;
    let host = srv_target(&m.recs[srv].rec)?.0.clone();
    let txt_ok = m.find(inst, wire::T_TXT).into_iter().any(|i| m.live_at_s(i, t, st, None, Mode::Definitely, sl + 1000));
    if !txt_ok {
        return None;
    }
    let addr_ok = [wire::T_A, wire::T_AAAA].iter().any(|ty| m.find(&host, *ty).into_iter().any(|i| m.live_at_s(i, t, st, None, Mode::Definitely, sl + 1000)));
    if !addr_ok {
        return None;
    }
    Some((srv, host))
}

impl Property for C04 {
    fn id(&self) -> &'static str {
        "C04"
    }
    fn level(&self) -> &'static str {
        "exploration"
    }
    fn count(&self, tier: Tier) -> u64 {
        match tier {
            Tier::Quick => 1500,
            Tier::Thorough => 30_000,
        }
    }
    fn rule_text(&self) -> &'static str {
        "seeded histories as for C03 restricted to announcements/updates (TTL >= 60 s): every instance's record set {PTR, SRV, TXT, A[, AAAA]} is split into 1-3 packets in random order and section placement, with duplicates, loss and delay in the lossy profiles; peers answer or ignore the DUT's own follow-up queries. Rules: ServiceFound in the step that accepted a PTR of an open browse; ServiceResolved (after ServiceFound) in the step in which the set became complete; follow-up queries (instance ANY, then host A+AAAA) 500 ms after an incomplete arrival, at most 3, 500 ms apart. Non-trivial = an instance completed by >= 2 packets or by a follow-up answer; distinct by schedule signature."
    }
    fn assumptions(&self) -> Vec<&'static str> {
        vec![
            "completeness is demanded only for records the receive model counts as definitely accepted (packets that are solely answers to someone else's browse are excluded, as the statement does)",
            "follow-up timing is judged ms-exactly only in the strict profile; with injected wake latency L the window is [500, 500+L+2] ms per try",
        ]
    }
    fn expected_probes(&self) -> Vec<&'static str> {
        vec!["completed-by-second-packet", "completed-by-follow-up-answer", "follow-up-query-seen", "address-arrived-last", "found-with-short-ttl"]
    }
    fn gen(&self, seed: u64, index: u64, tier: Tier) -> Scenario {
        gen_browse_world("C04", Flavor::C04, seed, index, tier)
    }
    fn judge(&self, scn: &Scenario, tr: &Trace) -> Judged {
        let mut j = Judged::default();
        let d = 0;
        let m = RxModel::build(scn, tr, d);
        let sl = slack(scn);
        let bw = browse_windows(scn, tr, d);
        let strict_run = scn.sched.max_latency == 0 && scn.sched.spurious_pm == 0;
        // candidate instances: PTR targets seen for browsed types
        for w in &bw {
            if w.cache_only {
                continue;
            }
            let ty = Name::from_dotted(&w.key);
            let ptrs = m.find(&ty, wire::T_PTR);
            for &pi in &ptrs {
                let Some(inst) = ptr_target(&m.recs[pi].rec).cloned() else { continue };
                let inst_s = inst.dotted();
                // R1: Found in the step that accepted the (first certain) PTR with ttl > 1 inside the window
                let first = m.recs[pi].arrivals.iter().find(|a| a.certain && a.ttl > 1 && a.step > w.open_step && a.step <= w.close_step);
                if let Some(a) = first {
                    j.judgements += 1;
                    let found = tr.events.iter().any(|e| e.d == d && e.slot == w.slot && e.step <= a.step && matches!(&e.ev, EvKind::Found(t, i) if *t == w.key && *i == inst_s));
                    if !found {
                        j.fail("C04-R1", format!("PTR {} -> {} accepted in step {} (t={}) but no ServiceFound on the channel by the end of that step", w.key, inst_s, a.step, a.t));
                    }
                }
                if let Some(a) = first {
                    if a.ttl < 60 {
                        // short-lived PTR: completeness and follow-up timing are judged on the long-lived instances only
                        j.probe("found-with-short-ttl");
                        continue;
                    }
                }
                // R2: the first step (inside the window) after which the set is complete
                let mut steps: Vec<(usize, u64)> = vec![];
                for h in &m.recs {
                    for a in &h.arrivals {
                        if a.step > w.open_step && a.step <= w.close_step {
                            steps.push((a.step, a.t));
                        }
                    }
                }
                steps.sort();
                steps.dedup();
                let mut completed_at: Option<(usize, u64)> = None;
                for (st, t) in &steps {
                    if complete_at(&m, &ty, &inst, *t, *st, sl).is_some() {
                        completed_at = Some((*st, *t));
                        break;
                    }
                }
                if let Some((st, t)) = completed_at {
                    j.judgements += 1;
                    // number of distinct packets that contributed
                    let mut pk: Vec<usize> = vec![];
                    for h in &m.recs {
                        let rel = (h.rec.ty == wire::T_PTR && ptr_target(&h.rec).map(|n| n.eq_ci(&inst)).unwrap_or(false)) || h.rec.name.eq_ci(&inst);
                        if rel {
                            for a in &h.arrivals {
                                if a.step <= st && !pk.contains(&a.rx) {
                                    pk.push(a.rx);
                                }
                            }
                        }
                    }
                    if pk.len() >= 2 {
                        j.nontrivial = true;
                        j.probe("completed-by-second-packet");
                    }
                    let last_is_addr = m.recs.iter().any(|h| matches!(h.rec.ty, wire::T_A | wire::T_AAAA) && h.arrivals.iter().any(|a| a.step == st) )
                        && !m.recs.iter().any(|h| h.rec.name.eq_ci(&inst) && h.arrivals.iter().any(|a| a.step == st));
                    if last_is_addr {
                        j.probe("address-arrived-last");
                    }
                    let resolved = tr.events.iter().find(|e| e.d == d && e.slot == w.slot && e.step > w.open_step && e.step <= st && matches!(&e.ev, EvKind::Resolved(r) if r.fullname == inst_s));
                    match resolved {
                        None => {
                            j.fail(
                                "C04-R2",
                                format!("instance {} of {} was complete (PTR, SRV, TXT, address all accepted and live) after step {} at t={} but no ServiceResolved was delivered by the end of that step", inst_s, w.key, st, t),
                            );
                        }
                        Some(re) => {
                            let found_before = tr.events.iter().any(|e| {
                                e.d == d && e.slot == w.slot && (e.step < re.step || (e.step == re.step)) && matches!(&e.ev, EvKind::Found(_, i) if *i == inst_s)
                                    && tr.events.iter().position(|x| std::ptr::eq(x, e)) < tr.events.iter().position(|x| std::ptr::eq(x, re))
                            });
                            if !found_before {
                                j.fail("C04-R2", format!("ServiceResolved({}) at t={} is not preceded by ServiceFound on its channel", inst_s, re.t));
                            }
                        }
                    }
                }
            }
        }
        // R3: follow-up queries. For each step in which a PTR of an open browse was certainly accepted while
        // no SRV for the instance had been delivered at all: a query (instance, ANY) 500 ms later.
        if scn.net.late_pm == 0 && scn.net.dup_pm == 0 {
            for w in &bw {
                if w.cache_only {
                    continue;
                }
                let ty = Name::from_dotted(&w.key);
                for &pi in &m.find(&ty, wire::T_PTR) {
                    let Some(inst) = ptr_target(&m.recs[pi].rec).cloned() else { continue };
                    let Some(a) = m.recs[pi].arrivals.iter().find(|a| a.certain && a.ttl > 1 && a.step > w.open_step && a.step <= w.close_step) else { continue };
                    if a.ttl < 60 {
                        continue;
                    }
                    let t0 = a.t;
                    let srv_by = |t: u64| m.find(&inst, wire::T_SRV).into_iter().any(|i| m.recs[i].arrivals.iter().any(|x| x.t <= t));
                    let any_related_between = |lo: u64, hi: u64| m.recs.iter().any(|h| (h.rec.name.eq_ci(&inst)) && h.arrivals.iter().any(|x| x.t > lo && x.t <= hi));
                    if srv_by(t0) {
                        continue;
                    }
                    let qs = queries_for(tr, d, &inst, wire::T_ANY);
                    if !qs.is_empty() {
                        j.probe("follow-up-query-seen");
                    }
                    // expected tries at t0+500, +1000, +1500 while no SRV has been delivered before the try
                    let mut expect = vec![];
                    for k in 1..=3u64 {
                        let due = t0 + 500 * k;
                        if due + sl >= w.close_t || due > tr.stats.sim_ms {
                            break;
                        }
                        // (each try is timed from the previous one, so wake latency accumulates: the k-th try may come as late
                        // as the end of its window, and anything about the instance that arrives before that cancels it)
                        let hi_k = due + (sl + 1) * k + 2;
                        if srv_by(hi_k) || any_related_between(t0, hi_k) {
                            break;
                        }
                        expect.push(due);
                    }
                    let chans = channels(&scn.duts[0].ifs, scn.duts[0].v4, scn.duts[0].v6);
                    for (k, due) in expect.iter().enumerate() {
                        j.judgements += 1;
                        for (ifx, v4) in &chans {
                            let lo = *due;
                            let hi = due + (sl + 1) * (k as u64 + 1) * if strict_run { 0 } else { 1 } + if strict_run { 0 } else { 2 };
                            let hit = qs.iter().any(|q| q.if_index == Some(*ifx) && q.v4 == *v4 && q.t >= lo && q.t <= hi);
                            if !hit {
                                j.fail(
                                    "C04-R3",
                                    format!("PTR for {} accepted at t={} without SRV: follow-up query #{} (instance ANY) expected in [{}, {}] on if{} {} but not seen; queries seen at {:?}", inst.dotted(), t0, k + 1, lo, hi, ifx, if *v4 { "v4" } else { "v6" }, qs.iter().map(|q| q.t).collect::<Vec<_>>()),
                                );
                                break;
                            }
                        }
                    }
                    // at most three tries per unresolved episode
                    j.judgements += 1;
                    let per_chan = qs.iter().filter(|q| q.if_index == chans.first().map(|c| c.0) && q.v4 == chans.first().map(|c| c.1).unwrap_or(true) && q.t > t0 && q.t <= t0 + 1500 + 4 * sl).count();
                    // ... and no fourth one later, as long as nothing about the instance arrived that would start a new episode
                    let quiet_until = t0 + 2600 + 4 * sl;
                    let ptr_again = m.recs[pi].arrivals.iter().any(|x| x.t > t0 && x.t <= quiet_until);
                    if !any_related_between(t0, quiet_until) && !ptr_again && quiet_until < w.close_t && quiet_until < tr.stats.sim_ms {
                        let n = qs.iter().filter(|q| q.if_index == chans.first().map(|c| c.0) && q.v4 == chans.first().map(|c| c.1).unwrap_or(true) && q.t > t0 && q.t <= quiet_until).count();
                        if n > 3 {
                            j.fail("C04-R3", format!("{} follow-up queries for {} after the PTR at t={} although nothing more about the instance arrived (up to three times; seen at {:?})", n, inst.dotted(), t0, qs.iter().filter(|q| q.t > t0 && q.t <= quiet_until).map(|q| q.t).collect::<Vec<_>>()));
                        }
                    }
                    if per_chan > 3 {
                        j.fail("C04-R3", format!("{} follow-up queries for {} within 1.5 s of the PTR at t={} (at most 3 allowed)", per_chan, inst.dotted(), t0));
                    }
                    // completed by a follow-up answer?
                    if !qs.is_empty() && tr.events.iter().any(|e| matches!(&e.ev, EvKind::Resolved(r) if r.fullname == inst.dotted()) && e.t > qs[0].t) {
                        j.nontrivial = true;
                        j.probe("completed-by-follow-up-answer");
                    }
                }
            }
        }
        j.abstained += m.maybe_packets;
        j
    }
}

// ===================================================================== C05

pub struct C05;

impl Property for C05 {
    fn id(&self) -> &'static str {
        "C05"
    }
    fn count(&self, tier: Tier) -> u64 {
        match tier {
            Tier::Quick => 1500,
            Tier::Thorough => 30_000,
        }
    }
    fn rule_text(&self) -> &'static str {
        "seeded histories as for C03 with goodbyes (complete, partial, lost, duplicated, followed by a late stale announcement), silent vanishing, re-announcement and verify(instance, timeout in 0..60 s) calls, TTLs 2 s..75 min, observed for >= 3 (thorough 10) max TTLs. Rules: ServiceRemoved exactly (strict) or within the injected latency at goodbye+1 s, at the end of life of the PTR / last SRV / last host address, and at the verify deadline; never while PTR, SRV and an address are all definitely live; no ServiceResolved after ServiceRemoved without a new delivery. Non-trivial = >= 1 removal predicted by the model and judged; distinct by schedule signature."
    }
    fn assumptions(&self) -> Vec<&'static str> {
        vec![
            "removal times are predicted from definitely-accepted deliveries only; where loss, duplication or reordering make the end of life ambiguous the rule abstains (counted)",
            "ServiceRemoved duplicates at distinct end-of-life moments are allowed, as the statement asks for one at each",
        ]
    }
    fn expected_probes(&self) -> Vec<&'static str> {
        vec!["removed-by-goodbye", "removed-by-ptr-expiry", "removed-by-srv-expiry", "removed-by-address-expiry", "removed-by-verify", "goodbye-then-reannounce"]
    }
    fn gen(&self, seed: u64, index: u64, tier: Tier) -> Scenario {
        gen_browse_world("C05", Flavor::C05, seed, index, tier)
    }
    fn judge(&self, scn: &Scenario, tr: &Trace) -> Judged {
        let mut j = Judged::default();
        let d = 0;
        let m = RxModel::build(scn, tr, d);
        let sl = slack(scn);
        let bw = browse_windows(scn, tr, d);
        let clean = scn.net.drop_pm == 0 && scn.net.dup_pm == 0 && scn.net.late_pm == 0 && scn.net.corrupt_pm == 0;
        for w in &bw {
            if w.cache_only {
                continue;
            }
            let ty = Name::from_dotted(&w.key);
            let evs: Vec<&Ev> = tr.events.iter().filter(|e| e.d == d && e.slot == w.slot).collect();
            let removed_times = |inst: &str| -> Vec<u64> { evs.iter().filter(|e| matches!(&e.ev, EvKind::Removed(_, i) if i == inst)).map(|e| e.t).collect() };
            for &pi in &m.find(&ty, wire::T_PTR) {
                let Some(inst) = ptr_target(&m.recs[pi].rec).cloned() else { continue };
                let inst_s = inst.dotted();
                let reported: Vec<u64> = evs.iter().filter(|e| matches!(&e.ev, EvKind::Found(_, i) if *i == inst_s) || matches!(&e.ev, EvKind::Resolved(r) if r.fullname == inst_s)).map(|e| e.t).collect();
                let rem = removed_times(&inst_s);
                // ---- R4 soundness: no removal while PTR, SRV and an address are all definitely live
                for &t in &rem {
                    j.judgements += 1;
                    let lo = t.saturating_sub(sl);
                    let all_live = |tt: u64| -> bool {
                        let ptr = m.live_at(pi, tt, None, Mode::Definitely, sl + 1);
                        let srv = m.find(&inst, wire::T_SRV).into_iter().find(|&i| m.live_at(i, tt, None, Mode::Definitely, sl + 1));
                        let Some(srv) = srv else { return false };
                        let Some((host, _)) = srv_target(&m.recs[srv].rec) else { return false };
                        let addr = [wire::T_A, wire::T_AAAA].iter().any(|ty| m.find(host, *ty).into_iter().any(|i| m.live_at(i, tt, None, Mode::Definitely, sl + 1)));
                        ptr && addr
                    };
                    // a record that was displaced (SRV update) legitimately triggers a removal of the old data; we only
                    // flag when nothing at all ended around t
                    let something_ended = m.recs.iter().enumerate().any(|(i, h)| {
                        let rel = i == pi || h.rec.name.eq_ci(&inst) || m.find(&inst, wire::T_SRV).iter().any(|&s| srv_target(&m.recs[s].rec).map(|(hn, _)| hn.eq_ci(&h.rec.name)).unwrap_or(false));
                        if !rel {
                            return false;
                        }
                        // ended within [t - sl - 1000, t]
                        let lo_e = t.saturating_sub(sl + 1000);
                        // (addresses: per receiving interface, so that cache-flush displacement is applied in both modes)
                        let ifx = if matches!(h.rec.ty, wire::T_A | wire::T_AAAA) { h.arrivals.first().map(|a| a.if_index) } else { None };
                        m.intervals(i, ifx, Mode::Definitely).iter().any(|&(_, e)| e <= t + 1 && e >= lo_e)
                            || m.intervals(i, ifx, Mode::Possibly).iter().any(|&(_, e)| e <= t + 1 + sl && e >= lo_e)
                    });
                    if all_live(lo) && all_live(t) && !something_ended {
                        // is a related record inside the last second of its life? (the crate treats such a
                        // record as gone already: known finding F-C05-final-second)
                        let near_end = m.recs.iter().enumerate().find_map(|(i, h)| {
                            let rel = i == pi || h.rec.name.eq_ci(&inst) || m.find(&inst, wire::T_SRV).iter().any(|&s| srv_target(&m.recs[s].rec).map(|(hn, _)| hn.eq_ci(&h.rec.name)).unwrap_or(false));
                            if !rel {
                                return None;
                            }
                            // expiry as known at time t (a later refresh may have extended it)
                            // (also as known just before t: a refresh read in the same step may come after the event)
                            [t, t.saturating_sub(1)].iter().find_map(|&tt| match m.end_of_life(i, tt, None, Mode::Definitely) {
                                Some((_, e)) if e > t && e <= t + 1000 + sl => Some((wire::ty_name(h.rec.ty), e)),
                                _ => None,
                            })
                        });
                        // the known final-second behaviour is triggered by a response read in the step of the removal
                        let triggered = evs.iter().filter(|e| e.t == t && matches!(&e.ev, EvKind::Removed(_, i) if *i == inst_s)).any(|e| {
                            tr.rx.iter().any(|r| r.d == d && r.step == Some(e.step) && r.msg.as_ref().map(|mm| mm.is_response()).unwrap_or(false))
                        });
                        match near_end.filter(|_| triggered) {
                            Some((ty, e)) => j.fail("C05-R4", format!("ServiceRemoved({}) at t={} although its PTR, an SRV and an address are all still live; its {} record is within the last second of its life (ends at t={})", inst_s, t, ty, e)),
                            None => j.fail("C05-R4", format!("ServiceRemoved({}) at t={} although its PTR, an SRV and an address are all live in the receive model and no record of it ended", inst_s, t)),
                        }
                    }
                }
                // ---- R5 no resurrection without new data
                for &t in &rem {
                    if let Some(re) = evs.iter().find(|e| e.t >= t && matches!(&e.ev, EvKind::Resolved(r) if r.fullname == inst_s) && (e.t > t || tr.events.iter().position(|x| std::ptr::eq(x, **e)) > tr.events.iter().rposition(|x| x.t == t && matches!(&x.ev, EvKind::Removed(_, i) if *i == inst_s)))) {
                        j.judgements += 1;
                        let fed = tr.rx.iter().any(|r| r.d == d && r.step.is_some() && r.t_read.map(|x| x >= t.saturating_sub(sl) && x <= re.t).unwrap_or(false) && r.msg.as_ref().map(|mm| mm.is_response()).unwrap_or(false));
                        if !fed {
                            j.fail("C05-R5", format!("ServiceResolved({}) at t={} follows ServiceRemoved at t={} although no response was delivered in between", inst_s, re.t, t));
                        }
                    }
                }
                if !clean {
                    j.abstained += 1;
                    continue;
                }
                if reported.is_empty() {
                    continue;
                }
                // ---- R1/R2/R3 timeliness, in fault-free networks: predicted end-of-life moments
                // PTR end of life
                let horizon = tr.stats.sim_ms;
                let mut predict: Vec<(u64, &'static str)> = vec![];
                // walk PTR arrivals: each maximal life interval ends at E
                {
                    let h = &m.recs[pi];
                    let mut arr: Vec<&Arrival> = h.arrivals.iter().filter(|a| a.certain).collect();
                    arr.sort_by_key(|a| a.t);
                    for (k, a) in arr.iter().enumerate() {
                        let e = a.t + (a.ttl.max(1) as u64) * 1000;
                        let refreshed = arr.get(k + 1).map(|n| n.t < e).unwrap_or(false) || h.arrivals.iter().any(|x| x.t > a.t && x.t < e);
                        if !refreshed && e + sl < w.close_t && e + sl < horizon && a.t >= w.open_t {
                            predict.push((e, if a.ttl == 0 { "goodbye" } else { "ptr-expiry" }));
                        }
                    }
                }
                // last SRV end of life: time at which no SRV for inst is live any more
                let srvs = m.find(&inst, wire::T_SRV);
                if !srvs.is_empty() {
                    // candidate moments: the ends of the SRVs' life intervals
                    let mut cands: Vec<u64> = vec![];
                    for &si in &srvs {
                        cands.extend(m.intervals(si, None, Mode::Definitely).iter().map(|&(_, e)| e));
                    }
                    cands.sort();
                    cands.dedup();
                    for e in cands {
                        if e == 0 || e + sl >= w.close_t || e + sl >= horizon || e <= w.open_t {
                            continue;
                        }
                        let live_before = srvs.iter().any(|&si| m.live_at(si, e - 1, None, Mode::Definitely, 0));
                        let live_after = srvs.iter().any(|&si| m.live_at(si, e, None, Mode::Possibly, 0));
                        let ptr_live = m.live_at(pi, e, None, Mode::Definitely, sl + 1);
                        if live_before && !live_after && ptr_live {
                            let by_verify = m.verifies.iter().any(|v| v.instance == inst_s && v.t + v.timeout_ms == e);
                            predict.push((e, if by_verify { "verify" } else { "srv-expiry" }));
                        }
                    }
                }
                // last address of the host (host of the SRV live at that moment)
                for &si in &srvs {
                    let Some((host, _)) = srv_target(&m.recs[si].rec) else { continue };
                    let addrs: Vec<usize> = m.find(host, wire::T_A).into_iter().chain(m.find(host, wire::T_AAAA)).collect();
                    let mut cands: Vec<u64> = vec![];
                    for &ai in &addrs {
                        cands.extend(m.intervals(ai, None, Mode::Definitely).iter().map(|&(_, e)| e));
                    }
                    cands.sort();
                    cands.dedup();
                    for e in cands {
                        if e == 0 || e + sl >= w.close_t || e + sl >= horizon || e <= w.open_t {
                            continue;
                        }
                        let live_before = addrs.iter().any(|&ai| m.live_at(ai, e - 1, None, Mode::Definitely, 0));
                        let live_after = addrs.iter().any(|&ai| m.live_at(ai, e, None, Mode::Possibly, 0));
                        let ptr_live = m.live_at(pi, e, None, Mode::Definitely, sl + 1);
                        let srv_live = m.live_at(si, e, None, Mode::Definitely, sl + 1);
                        if live_before && !live_after && ptr_live && srv_live {
                            let by_verify = m.verifies.iter().any(|v| v.instance == inst_s && v.t + v.timeout_ms == e);
                            predict.push((e, if by_verify { "verify" } else { "address-expiry" }));
                        }
                    }
                }
                // verify requests that stay unanswered: the SRV records of the instance, and the addresses of the host of
                // an SRV that was in the cache when the request was executed, end at the deadline. (The possible view of
                // the model ignores verify deadlines, so the two blocks above never predict these.) "Unanswered" is
                // judged per record set: no copy of any record of the set is read from just before the request until
                // just after the deadline, so that nothing can have restored or re-created a record of the set.
                for v in m.verifies.iter().filter(|v| v.instance == inst_s) {
                    let e = v.t + v.timeout_ms;
                    if e + sl >= w.close_t || e + sl >= horizon || v.t <= w.open_t + sl + 1 {
                        continue;
                    }
                    let lo = v.t - sl - 1;
                    let quiet = |idxs: &[usize]| !idxs.iter().any(|&i| m.recs[i].arrivals.iter().any(|a| a.t >= lo && a.t <= e + sl));
                    let ends_at_deadline = |idxs: &[usize]| idxs.iter().any(|&i| m.intervals(i, None, Mode::Definitely).iter().any(|&(st, en)| st < lo && en == e));
                    if !m.live_at(pi, e, None, Mode::Definitely, sl + 1) {
                        continue;
                    }
                    if quiet(&srvs) && ends_at_deadline(&srvs) {
                        predict.push((e, "verify"));
                        continue;
                    }
                    for &si in &srvs {
                        // the SRV was in the cache when the request was executed and stays live beyond the deadline
                        let in_cache = m.intervals(si, None, Mode::Definitely).iter().any(|&(st, en)| st < lo && en >= v.t);
                        if !in_cache || !m.live_at(si, e, None, Mode::Definitely, sl + 1) {
                            continue;
                        }
                        let Some((host, _)) = srv_target(&m.recs[si].rec) else { continue };
                        let addrs: Vec<usize> = m.find(host, wire::T_A).into_iter().chain(m.find(host, wire::T_AAAA)).collect();
                        if quiet(&addrs) && ends_at_deadline(&addrs) {
                            predict.push((e, "verify"));
                        }
                    }
                }
                predict.sort();
                predict.dedup();
                for (e, why) in predict {
                    // a fresh copy of a record of the instance that the daemon reads at the very instant of the end, or within
                    // the wake latency after it, is handled before the eviction pass of that iteration and revives the record:
                    // not judged
                    {
                        let mut related: Vec<usize> = vec![pi];
                        related.extend(srvs.iter().copied());
                        for &si in &srvs {
                            if let Some((host, _)) = srv_target(&m.recs[si].rec) {
                                related.extend(m.find(host, wire::T_A));
                                related.extend(m.find(host, wire::T_AAAA));
                            }
                        }
                        // (a goodbye read in that window counts too: it puts the record into its final second, in which the
                        // daemon treats it as gone already - the known final-second behaviour - and the path taken differs)
                        if related.iter().any(|&i| m.recs[i].arrivals.iter().any(|a| a.t >= e && a.t <= e + sl)) {
                            j.abstained += 1;
                            continue;
                        }
                    }
                    // the instance must have been reported before e and not already removed with nothing reported since;
                    // the end of an SRV or address only concerns an instance that had been reported *resolved*
                    let rep_before = if matches!(why, "goodbye" | "ptr-expiry") {
                        reported.iter().any(|&t| t <= e)
                    } else {
                        evs.iter().any(|x| x.t <= e && matches!(&x.ev, EvKind::Resolved(r) if r.fullname == inst_s))
                    };
                    if !rep_before {
                        continue;
                    }
                    // (for the end of an SRV or address: not removed since it was last reported *resolved*; an instance that
                    // was merely found again after a removal has nothing to be removed from)
                    let last_rep = if matches!(why, "goodbye" | "ptr-expiry") {
                        reported.iter().copied().filter(|&t| t <= e).max().unwrap_or(0)
                    } else {
                        evs.iter().filter(|x| x.t <= e && matches!(&x.ev, EvKind::Resolved(r) if r.fullname == inst_s)).map(|x| x.t).max().unwrap_or(0)
                    };
                    let removed_since = rem.iter().any(|&t| t >= last_rep && t < e.saturating_sub(1000));
                    if removed_since {
                        continue;
                    }
                    j.judgements += 1;
                    j.nontrivial = true;
                    j.probe(match why {
                        "goodbye" => "removed-by-goodbye",
                        "ptr-expiry" => "removed-by-ptr-expiry",
                        "srv-expiry" => "removed-by-srv-expiry",
                        "address-expiry" => "removed-by-address-expiry",
                        _ => "removed-by-verify",
                    });
                    // a removal up to 1 s early is judged (and flagged) by R4; here it counts as delivered
                    let hit = rem.iter().any(|&t| t + 1000 + sl >= e && t <= e + sl);
                    if !hit {
                        let rule = match why {
                            "goodbye" => "C05-R1",
                            "verify" => "C05-R3",
                            _ => "C05-R2",
                        };
                        // is another record of the instance inside the last second of its life at e?
                        let near_end = m.recs.iter().enumerate().find_map(|(i, h)| {
                            let rel = i == pi || h.rec.name.eq_ci(&inst);
                            if !rel {
                                return None;
                            }
                            match m.end_of_life(i, e, None, Mode::Definitely) {
                                Some((_, ee)) if ee > e && ee <= e + 1000 + sl => Some((wire::ty_name(h.rec.ty), ee)),
                                _ => None,
                            }
                        });
                        let extra = match near_end {
                            Some((ty, ee)) => format!("; its {} record is within the last second of its life (ends at t={}) and the daemon skips such an instance", ty, ee),
                            None => String::new(),
                        };
                        j.fail(
                            rule,
                            format!("instance {} ({}): end of life by {} at t={} but no ServiceRemoved in [{}, {}]; removals seen at {:?}{}", inst_s, w.key, why, e, e, e + sl, rem, extra),
                        );
                    }
                }
                // goodbye then re-announce probe
                if m.recs[pi].arrivals.windows(2).any(|p| p[0].ttl == 0 && p[1].ttl > 0) {
                    j.probe("goodbye-then-reannounce");
                }
            }
        }
        j.abstained += m.maybe_packets;
        j
    }
}

pub fn unused(_: IpAddr) {}
