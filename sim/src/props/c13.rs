//! C13 — stopping a search really stops it; every channel follows its protocol.

use super::common::*;
use super::model::*;
use super::{Judged, Property, Tier};
use crate::rng::{mix, Rng};
use crate::scenario::*;
use crate::trace::*;
use crate::wire::{self, Name, Rec};
use serde_json::json;

pub struct C13;

fn case_of(rng: &mut Rng, h: &str) -> String {
    let base = h.trim_end_matches(".local.");
    let v = match rng.below(4) {
        0 => base.to_string(),
        1 => base.to_uppercase(),
        2 => base.to_lowercase(),
        _ => base.chars().enumerate().map(|(i, c)| if i % 2 == 0 { c.to_ascii_uppercase() } else { c.to_ascii_lowercase() }).collect(),
    };
    format!("{v}.local.")
}

impl Property for C13 {
    fn id(&self) -> &'static str {
        "C13"
    }
    fn count(&self, tier: Tier) -> u64 {
        match tier {
            Tier::Quick => 1200,
            Tier::Thorough => 25_000,
        }
    }
    fn rule_text(&self) -> &'static str {
        "seeded interleavings of browse, browse again (old receiver kept or dropped), browse_cache, stop_browse (known / unknown type), resolve_hostname (with / without timeout; lower, upper, mixed case), stop_resolve_hostname (in another case) and shutdown, with calls placed at, just before and just after retransmission times, against peers that own instances and hosts and answer queries; observed for >= 2x the next scheduled retransmission (thorough: past the one-hour cap) after every stop; strict and latency profiles. Per channel: first event SearchStarted, ServiceFound before ServiceResolved, SearchStopped once and last after stop / timeout / shutdown; on the wire no query for a stopped type or host name; a cache-only browse issued right after a stop reports nothing; a cache-only browse sends no query; a replaced browse hands later events to the new channel. Non-trivial = a world with >= 1 stop (or timeout) that happened while a retransmission was pending and was observed for >= 2 further retransmission intervals; distinct by schedule signature."
    }
    fn assumptions(&self) -> Vec<&'static str> {
        vec!["a search is 'stopped' from the end of the step that consumed the stop call (or reached the timeout); queries in that very step are not judged"]
    }
    fn expected_probes(&self) -> Vec<&'static str> {
        vec!["stop-browse", "stop-hostname-other-case", "hostname-timeout", "shutdown-with-open-searches", "rebrowse", "cache-only-after-stop", "cache-only-browse", "stop-unknown", "hostname-search-after-stop"]
    }

    fn gen(&self, seed: u64, index: u64, tier: Tier) -> Scenario {
        let rs = mix(seed, index);
        let mut rng = Rng::new(rs, 0x13);
        let latency = index % 4 == 3;
        let mut s = Scenario::new("C13", if latency { "latency" } else { "strict" }, rs);
        strict(&mut s);
        if latency {
            s.sched.max_latency = [5, 50][rng.below(2) as usize];
        }
        s.net.self_loop = rng.bool();
        let dut = random_dut(&mut rng, 10, 2, true);
        let ifs = dut.ifs.clone();
        s.duts.push(dut);
        s.op(0, Op::SetIpCheck { d: 0, secs: HUGE_IP_CHECK_SECS });
        // a responder on the first segment that owns two instances and a host
        let has4 = ifs[0].addrs.iter().any(|a| a.ip.contains('.'));
        let ty0 = ty_name(rng.below(3));
        let ttl = [10u32, 120, 4500][rng.below(3) as usize];
        let host = "Box-9.local.";
        let (v4s, v6s): (Vec<&str>, Vec<&str>) = if has4 { (vec!["192.168.1.50"], vec![]) } else { (vec![], vec!["fe80::1:50"]) };
        let i1 = instance_recs(&ty0, "alpha one", host, 8000, &v4s, &v6s, vec![0], ttl, ttl.min(120));
        let i2 = instance_recs(&ty0, "beta", host, 8001, &v4s, &v6s, vec![0], ttl, ttl.min(120));
        let mut recs = i1.all();
        for r in i2.all() {
            if !recs.contains(&r) {
                recs.push(r);
            }
        }
        let mut p = if has4 { peer_v4(1, 50, 0) } else { PeerCfg { seg: 0, v4: None, v6: Some("fe80::1:50".into()), responder: None } };
        p.responder = Some(ResponderCfg { records: recs, delay_ms: 15, honor_known_answers: true, additionals: true, active: true, max_answers: None, skip_first: 0, conflict_probes: 0 });
        s.peers.push(p);
        if index % 12 == 11 {
            // "forget" worlds with a shared host: the stopped type has instances on several hosts of its own and one on a host
            // that an instance of another, still running, browse also uses; the stop must forget the addresses of the
            // hosts of its own (asked for afterwards by a hostname search), whatever it keeps for the shared one
            s.peers[0].responder = None;
            let ty1 = ty_name(3 + rng.below(3));
            let t0 = rng.below(300);
            s.op(t0, Op::Browse { d: 0, ty: ty0.clone(), slot: 10 });
            s.op(t0 + 5, Op::Browse { d: 0, ty: ty1.clone(), slot: 12 });
            let n_own = 3 + rng.below(5);
            let mut recs: Vec<Rec> = vec![];
            recs.extend(instance_recs(&ty0, "on shared", "Shared-Host.local.", 8000, &v4s, &v6s, vec![0], 4500, 120).all());
            recs.extend(instance_recs(&ty1, "other type", "Shared-Host.local.", 8100, &v4s, &v6s, vec![0], 4500, 120).all());
            for k in 0..n_own {
                let a4 = format!("192.168.1.{}", 60 + k);
                let a6 = format!("fe80::1:{:x}", 0x60 + k);
                let (o4, o6): (Vec<&str>, Vec<&str>) = if has4 { (vec![a4.as_str()], vec![]) } else { (vec![], vec![a6.as_str()]) };
                recs.extend(instance_recs(&ty0, &format!("own {k}"), &format!("Own-{k}.local."), 8200 + k as u16, &o4, &o6, vec![0], 4500, 120).all());
            }
            let mut seen: Vec<Rec> = vec![];
            recs.retain(|r| if seen.contains(r) { false } else { seen.push(r.clone()); true });
            s.op(t0 + 300, Op::PeerSend { p: 0, v4: has4, sport: 5353, msg: announce(&recs), to: Dest::Mcast });
            let ts = t0 + 1500 + rng.below(3000);
            s.op(ts, Op::StopBrowse { d: 0, ty: ty0.clone() });
            let tq = ts + 1 + rng.below(400);
            s.op(tq, Op::ResolveHost { d: 0, host: format!("own-{}.local.", rng.below(n_own)), timeout: None, slot: 11 });
            s.params = json!({"forget": true});
            s.horizon_ms = tq + 20_000;
            s.max_steps = 30_000;
            s.sort_ops();
            return s;
        }
        if index % 6 == 5 {
            // "forget" worlds: one browse learns the instances (host spelled in mixed case), the peer falls silent, the
            // browse is stopped, and a cache-only browse or a hostname search opened right afterwards must find nothing
            let t0 = rng.below(500);
            let ts = t0 + 1200 + rng.below(5000);
            s.op(t0, Op::Browse { d: 0, ty: ty0.clone(), slot: 10 });
            s.op(ts - 1 - rng.below(100), Op::PeerActive { p: 0, on: false });
            s.op(ts, Op::StopBrowse { d: 0, ty: ty0.clone() });
            let tq = ts + rng.below(3) * rng.below(500);
            if rng.bool() {
                s.op(tq, Op::BrowseCache { d: 0, ty: ty0.clone(), slot: 11 });
            } else {
                s.op(tq, Op::ResolveHost { d: 0, host: case_of(&mut rng, host), timeout: None, slot: 11 });
            }
            s.params = json!({"forget": true});
            s.horizon_ms = tq + 20_000;
            s.max_steps = 30_000;
            s.sort_ops();
            return s;
        }
        let mut slot = 10u32;
        let mut t_last = 0u64;
        let n_act = 2 + rng.below(4);
        let mut t = rng.below(800);
        let near = |rng: &mut Rng, base: u64| -> u64 {
            // at, just before, just after retransmission times of a search started at `base`
            let k = rng.below(6);
            let at = base + ((1u64 << k) - 1) * 1000;
            (at as i64 + [-1i64, 0, 1, 500, -500, 37][rng.below(6) as usize]).max(0) as u64
        };
        for _ in 0..n_act {
            match rng.below(7) {
                0 | 1 => {
                    let ty = if rng.below(4) == 0 { ty_name(3 + rng.below(3)) } else { ty0.clone() };
                    s.op(t, Op::Browse { d: 0, ty: ty.clone(), slot });
                    let my = slot;
                    slot += 1;
                    match rng.below(5) {
                        0 | 1 => {
                            let ts = near(&mut rng, t).max(t + 1);
                            s.op(ts, Op::StopBrowse { d: 0, ty: ty.clone() });
                            if rng.bool() {
                                s.op(ts + rng.below(3), Op::BrowseCache { d: 0, ty: ty.clone(), slot });
                                slot += 1;
                            }
                            if rng.below(3) == 0 {
                                s.op(ts + 5 + rng.below(4000), Op::Browse { d: 0, ty, slot });
                                slot += 1;
                            }
                            t_last = t_last.max(ts);
                        }
                        2 => {
                            let tr = near(&mut rng, t).max(t + 1);
                            if rng.bool() {
                                s.op(tr.saturating_sub(1).max(t + 1), Op::DropSlot { d: 0, slot: my });
                            }
                            s.op(tr, Op::Browse { d: 0, ty, slot });
                            slot += 1;
                            t_last = t_last.max(tr);
                        }
                        _ => {}
                    }
                }
                2 => {
                    s.op(t, Op::BrowseCache { d: 0, ty: ty0.clone(), slot });
                    slot += 1;
                }
                3 | 4 => {
                    let h = if rng.below(4) == 0 { host_name(rng.below(5)) } else { case_of(&mut rng, host) };
                    let timeout = if rng.below(3) == 0 { Some([1u64, 999, 1000, 1001, 2999, 3000, 3001, 6500][rng.below(8) as usize]) } else { None };
                    s.op(t, Op::ResolveHost { d: 0, host: h.clone(), timeout, slot });
                    slot += 1;
                    if let Some(to) = timeout {
                        t_last = t_last.max(t + to);
                    }
                    if rng.below(3) != 0 {
                        let ts = near(&mut rng, t).max(t + 1);
                        s.op(ts, Op::StopResolveHost { d: 0, host: case_of(&mut rng, &h) });
                        t_last = t_last.max(ts);
                        if rng.below(3) == 0 {
                            s.op(ts + 5 + rng.below(3000), Op::ResolveHost { d: 0, host: case_of(&mut rng, &h), timeout: None, slot });
                            slot += 1;
                        }
                    }
                }
                5 => {
                    s.op(t, Op::StopBrowse { d: 0, ty: ty_name(5) });
                    s.op(t, Op::StopResolveHost { d: 0, host: "nosuch.local.".into() });
                }
                _ => {
                    // peer goes away / comes back
                    s.op(t, Op::PeerActive { p: 0, on: rng.bool() });
                }
            }
            t += 200 + rng.below(6000);
        }
        t_last = t_last.max(t);
        let observe = match tier {
            Tier::Quick => [70_000u64, 140_000, 300_000][rng.below(3) as usize],
            Tier::Thorough => [140_000u64, 3 * 3600_000, 600_000][rng.below(3) as usize],
        };
        if rng.below(3) == 0 {
            s.op(t_last + observe / 2, Op::Shutdown { d: 0, slot: 99 });
        }
        s.horizon_ms = t_last + observe;
        s.max_steps = 30_000;
        s.sort_ops();
        s
    }

    fn judge(&self, scn: &Scenario, tr: &Trace) -> Judged {
        let mut j = Judged::default();
        let d = 0;
        let sl = scn.sched.max_latency + if scn.sched.max_latency > 0 { 2 } else { 0 };
        let bw = browse_windows(scn, tr, d);
        let hw = host_windows(scn, tr, d);
        let end_t = tr.stats.sim_ms;
        let _shutdown_step: Option<usize> = tr.api.iter().find(|a| a.d == d && a.op != usize::MAX && a.outcome == ApiOutcome::Ok && matches!(scn.ops[a.op].op, Op::Shutdown { .. })).and_then(|a| consumed_in(&dut_steps(tr, d), a));
        let dropped_at = |slot: u32| -> Option<u64> {
            scn.ops.iter().enumerate().find(|(_, o)| matches!(o.op, Op::DropSlot { slot: s, .. } if s == slot)).and_then(|(i, _)| op_time(tr, i))
        };
        if scn.ops.iter().any(|o| matches!(&o.op, Op::StopBrowse { ty, .. } if !scn.ops.iter().any(|b| matches!(&b.op, Op::Browse { ty: t2, .. } if t2 == ty)))) {
            j.probe("stop-unknown");
        }
        // ---------------- browse channels
        for (wi, w) in bw.iter().enumerate() {
            let evs: Vec<&Ev> = tr.events.iter().filter(|e| e.d == d && e.slot == w.slot && !matches!(e.ev, EvKind::Disconnected)).collect();
            if w.cache_only {
                j.probe("cache-only-browse");
            }
            if evs.is_empty() {
                continue;
            }
            j.judgements += 1;
            // R1
            if !matches!(evs[0].ev, EvKind::SearchStarted(_)) {
                j.fail("C13-R1", format!("first event on the channel of browse({}) at t={} is {:?}", w.key, w.open_t, evs[0].ev));
            }
            // R2
            let mut found: Vec<&str> = vec![];
            for e in &evs {
                match &e.ev {
                    EvKind::Found(_, i) => found.push(i),
                    EvKind::Resolved(r) => {
                        if !found.contains(&r.fullname.as_str()) {
                            j.fail("C13-R2", format!("ServiceResolved({}) at t={} on the channel of browse({}) without a preceding ServiceFound", r.fullname, e.t, w.key));
                            break;
                        }
                    }
                    _ => {}
                }
            }
            if w.cache_only {
                // R6: no query because of it: PTR queries for the type while this cache-only browse is registered and no
                // regular browse of the type is open
                {
                    let q = queries_for(tr, d, &Name::from_dotted(&w.key), wire::T_PTR);
                    let regular_open = |step: usize| bw.iter().any(|o| !o.cache_only && o.key == w.key && o.open_step <= step && step <= o.close_step);
                    j.judgements += 1;
                    if let Some(q0) = q.iter().find(|q| q.step > w.open_step && q.step <= w.close_step && !regular_open(q.step)) {
                        let refresh = q0.n_known == 0 && tr.rx.iter().any(|r| r.d == d && r.step.is_some() && r.t_read.map(|t| t < q0.t).unwrap_or(false) && r.msg.as_ref().map(|m| m.is_response() && m.answers.iter().any(|a| a.ty == wire::T_PTR && a.name.dotted() == w.key)).unwrap_or(false));
                        j.fail("C13-R6", format!("cache-only browse of {} (t={}) but a PTR query for it was sent at t={}{}", w.key, w.open_t, q0.t, if refresh { " (a cache refresh query on behalf of the cache-only browse)" } else { "" }));
                    }
                }
                // ... and no follow-up (SRV / TXT / ANY) query for an instance of the type either, while only cache-only
                // browses of the type are registered
                {
                    let suffix = format!(".{}", w.key.to_lowercase());
                    let regular_open = |step: usize| bw.iter().any(|o| !o.cache_only && (o.key == w.key || o.key.to_lowercase().ends_with(&suffix)) && o.open_step <= step && step <= o.close_step);
                    j.judgements += 1;
                    let hit = tr.tx.iter().filter(|x| x.d == d && x.step > w.open_step && x.step <= w.close_step && !regular_open(x.step)).find_map(|x| {
                        let m = x.msg.as_ref()?;
                        if m.is_response() {
                            return None;
                        }
                        m.questions.iter().find(|q| matches!(q.ty, wire::T_ANY | wire::T_SRV | wire::T_TXT) && q.name.dotted().to_lowercase().ends_with(&suffix)).map(|q| (x.t, q.name.dotted()))
                    });
                    if let Some((t, name)) = hit {
                        j.fail("C13-R6", format!("cache-only browse of {} (t={}) but a query for its instance {} was sent at t={} (a follow-up or refresh query for an instance on behalf of the cache-only browse)", w.key, w.open_t, name, t));
                    }
                }
                // R5: issued right after a stop with no ingress in between => reports nothing
                if let Some(prev) = bw.iter().find(|o| !o.cache_only && o.key == w.key && o.closed_by == "stop" && o.close_step <= w.open_step && (o.close_t + 3 >= w.open_t || scn.params.get("forget").is_some())) {
                    let ingress = tr.rx.iter().any(|r| r.d == d && r.step.map(|s| s > prev.close_step && s <= w.open_step).unwrap_or(false) && r.msg.as_ref().map(|m| m.is_response()).unwrap_or(false));
                    let another = bw.iter().any(|o| !o.cache_only && o.key != w.key && o.open_step < w.open_step && o.close_step >= w.open_step);
                    if !ingress && !another {
                        j.probe("cache-only-after-stop");
                        j.judgements += 1;
                        if let Some(e) = evs.iter().find(|e| e.step == w.open_step && matches!(e.ev, EvKind::Found(..) | EvKind::Resolved(..))) {
                            j.fail("C13-R5", format!("stop_browse({}) at t={} should forget its records, but a cache-only browse at t={} still reports {:?}", w.key, prev.close_t, w.open_t, e.ev));
                        }
                    }
                }
                continue;
            }
            // closed?
            let _ = wi;
            let closed = !w.closed_by.is_empty();
            let replaced = w.closed_by == "replaced";
            let by_shutdown = w.closed_by == "shutdown";
            if closed && !replaced {
                if by_shutdown {
                    j.probe("shutdown-with-open-searches");
                } else {
                    j.probe("stop-browse");
                }
                let dropped = dropped_at(w.slot).map(|t| t <= w.close_t).unwrap_or(false);
                if !dropped {
                    // R3: SearchStopped exactly once, last
                    j.judgements += 1;
                    let stops: Vec<usize> = evs.iter().enumerate().filter(|(_, e)| matches!(e.ev, EvKind::SearchStopped(_))).map(|(i, _)| i).collect();
                    if stops.len() != 1 {
                        j.fail("C13-R3", format!("browse({}) stopped at t={}: {} SearchStopped events on its channel (expected one)", w.key, w.close_t, stops.len()));
                    } else if stops[0] != evs.len() - 1 {
                        j.fail("C13-R3", format!("browse({}) stopped at t={}: event after SearchStopped on its channel: {:?} at t={}", w.key, w.close_t, evs[stops[0] + 1].ev, evs[stops[0] + 1].t));
                    } else if evs[stops[0]].step != w.close_step {
                        j.fail("C13-R3", format!("browse({}) stopped at t={}: SearchStopped delivered at t={} instead of in the stopping step", w.key, w.close_t, evs[stops[0]].t));
                    }
                }
                // R4: no query for the type after the stopping step until a new search for it starts
                // (a cache-only browse of the type that is registered later is judged by R6)
                let next_open = bw.iter().filter(|o| o.key == w.key && o.open_step >= w.close_step).map(|o| o.open_step).min().unwrap_or(usize::MAX);
                let q = queries_for(tr, d, &Name::from_dotted(&w.key), wire::T_PTR);
                j.judgements += 1;
                if end_t > w.close_t + 2500 {
                    j.nontrivial = true;
                }
                if let Some(bad) = q.iter().find(|q| q.step > w.close_step && q.step < next_open) {
                    j.fail("C13-R4", format!("browse({}) was stopped at t={} but a PTR query for it went out at t={} (if{:?})", w.key, w.close_t, bad.t, bad.if_index));
                }
            }
            if replaced {
                j.probe("rebrowse");
                // R7: the old channel gets no further Found/Resolved after the replacing step
                if dropped_at(w.slot).is_none() {
                    j.judgements += 1;
                    if let Some(e) = evs.iter().find(|e| e.step > w.close_step && matches!(e.ev, EvKind::Found(..) | EvKind::Resolved(..))) {
                        j.fail("C13-R7", format!("browse({}) was replaced at t={} but its old channel still received {:?} at t={}", w.key, w.close_t, e.ev, e.t));
                    }
                }
            }
        }
        // ---------------- hostname channels
        for w in &hw {
            let evs: Vec<&Ev> = tr.events.iter().filter(|e| e.d == d && e.slot == w.slot && !matches!(e.ev, EvKind::Disconnected)).collect();
            if evs.is_empty() {
                continue;
            }
            j.judgements += 1;
            if !matches!(evs[0].ev, EvKind::HStarted(_)) {
                j.fail("C13-R1", format!("first event on the channel of resolve_hostname({}) at t={} is {:?}", w.key, w.open_t, evs[0].ev));
            }
            // R5 (forget worlds): the only search before this one was a browse that has been stopped, nothing was received
            // since: the records cached for it - the host's addresses included - are forgotten
            if scn.params.get("forget").is_some() {
                if let Some(prev) = bw.iter().find(|o| !o.cache_only && o.closed_by == "stop" && o.close_step <= w.open_step) {
                    let ingress = tr.rx.iter().any(|r| r.d == d && r.step.map(|s| s > prev.close_step).unwrap_or(false) && r.msg.as_ref().map(|m| m.is_response()).unwrap_or(false));
                    if !ingress {
                        j.probe("hostname-search-after-stop");
                        j.judgements += 1;
                        if tr.events.iter().any(|e| e.d == d && e.slot == prev.slot && matches!(e.ev, EvKind::Resolved(..))) {
                            j.nontrivial = true;
                        }
                        if let Some(e) = evs.iter().find(|e| matches!(e.ev, EvKind::HFound(..))) {
                            j.fail("C13-R5", format!("stop_browse({}) at t={} should forget the records cached for it, but resolve_hostname({}) at t={} still reports {:?} although nothing was received since", prev.key, prev.close_t, w.key, w.open_t, e.ev));
                        }
                    }
                }
            }
            if w.closed_by.is_empty() || w.closed_by == "replaced" {
                continue;
            }
            let by_timeout = w.closed_by == "timeout";
            if by_timeout {
                j.probe("hostname-timeout");
            } else if w.closed_by == "shutdown" {
                j.probe("shutdown-with-open-searches");
            } else {
                let stop_name = scn.ops.iter().find_map(|o| match &o.op {
                    Op::StopResolveHost { host, .. } if host.to_lowercase() == w.key => Some(host.clone()),
                    _ => None,
                });
                let start_name = scn.ops.iter().find_map(|o| match &o.op {
                    Op::ResolveHost { host, slot, .. } if *slot == w.slot => Some(host.clone()),
                    _ => None,
                });
                if stop_name.is_some() && stop_name != start_name {
                    j.probe("stop-hostname-other-case");
                }
            }
            // R3
            j.judgements += 1;
            let stops: Vec<usize> = evs.iter().enumerate().filter(|(_, e)| matches!(e.ev, EvKind::HStopped(_))).map(|(i, _)| i).collect();
            if stops.len() != 1 {
                if end_t > w.close_t + sl + 2 {
                    j.fail("C13-R3", format!("resolve_hostname({}) ended at t={}: {} SearchStopped events on its channel (expected one)", w.key, w.close_t, stops.len()));
                }
            } else {
                let si = stops[0];
                if si != evs.len() - 1 {
                    j.fail("C13-R3", format!("resolve_hostname({}) ended at t={}: event after SearchStopped: {:?} at t={}", w.key, w.close_t, evs[si + 1].ev, evs[si + 1].t));
                }
                if by_timeout {
                    if si == 0 || !matches!(evs[si - 1].ev, EvKind::HTimeout(_)) {
                        j.fail("C13-R3", format!("resolve_hostname({}) timed out at t={} but SearchTimeout does not immediately precede SearchStopped", w.key, w.close_t));
                    }
                    if evs[si].t < w.close_t || evs[si].t > w.close_t + sl {
                        j.fail("C13-R3", format!("resolve_hostname({}) with deadline t={}: SearchStopped delivered at t={}", w.key, w.close_t, evs[si].t));
                    }
                }
            }
            // R4: no A/AAAA query for the name after the end (until a new search)
            let next_open = hw.iter().filter(|o| o.key == w.key && o.open_t >= w.close_t && !std::ptr::eq(*o, w)).map(|o| o.open_t).min().unwrap_or(u64::MAX);
            // a browse may legitimately query the host of one of its instances
            // (also a cache-only browse: it refreshes like a regular one, see F-C13-cache-only-refresh)
            let browse_open_later = bw.iter().any(|o| o.close_t > w.close_t);
            if !browse_open_later {
                j.judgements += 1;
                if end_t > w.close_t + 2500 {
                    j.nontrivial = true;
                }
                for ty in [wire::T_A, wire::T_AAAA] {
                    let q = queries_for(tr, d, &Name::from_dotted(&w.key), ty);
                    if let Some(bad) = q.iter().find(|q| q.t > w.close_t + sl && q.t < next_open) {
                        j.fail("C13-R4", format!("resolve_hostname({}) ended at t={} but an address query for it went out at t={}", w.key, w.close_t, bad.t));
                        break;
                    }
                }
            }
        }
        j
    }
}
