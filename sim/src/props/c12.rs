//! C12 — the daemon wakes itself for all time-driven work and never spins.
//!
//! Oracle: (a) metamorphic — the same scenario is executed a second time with additional
//! wake-ups at every multiple of `tick` ms although nothing is due. If every piece of
//! time-driven work has its own wake-up request, the extra wake-ups are no-ops and the two
//! histories (packets and events with their virtual times) are identical; a missing timer
//! shows as work that happens earlier in the ticked run than in the silent one (or only
//! there). (b) spin detection on the silent run: long runs of wake-ups requested for "now"
//! that do nothing.

use super::common::*;
use super::{Judged, Property, Tier};
use crate::rng::{mix, Rng};
use crate::scenario::*;
use crate::trace::*;
use crate::wire::{self, Msg, Name, Rec};
use crate::world;

pub struct C12;

fn gen_ipcheck(rs: u64) -> Scenario {
    let mut rng = Rng::new(rs, 0x1C);
    let mut s = Scenario::new("C12", "ipcheck", rs);
    strict(&mut s);
    s.net.self_loop = false;
    s.duts.push(random_dut(&mut rng, 10, 2, true));
    // sequences of interval settings
    let seqs: [&[u32]; 7] = [&[0], &[5, 0], &[0, 5], &[5, 3600, 1], &[1], &[2, 0, 3], &[HUGE_IP_CHECK_SECS, 1]];
    let seq = seqs[rng.below(7) as usize];
    let mut t = [0u64, 100, 4000, 5000, 5001, 7000][rng.below(6) as usize];
    for v in seq {
        s.op(t, Op::SetIpCheck { d: 0, secs: *v });
        t += 1000 + rng.below(9000);
    }
    // an interface event so that the check has something to find
    if rng.bool() {
        let mut ifs = s.duts[0].ifs.clone();
        ifs.push(simple_if("eth9", 9, Some(("192.168.9.10", 24)), None, 5));
        s.op(t / 2 + 500, Op::IfTable { d: 0, ifs });
    }
    if rng.bool() {
        s.op(50, Op::Browse { d: 0, ty: ty_name(rng.below(6)), slot: 10 });
    }
    s.op(0, Op::Monitor { d: 0, slot: 1 });
    s.horizon_ms = t + 30_000;
    s.max_steps = 15_000;
    s.sort_ops();
    s
}

fn gen_tiebreak(rs: u64) -> Scenario {
    let mut rng = Rng::new(rs, 0x7B);
    let mut s = Scenario::new("C12", "tiebreak", rs);
    strict(&mut s);
    s.net.self_loop = rng.below(4) == 0;
    s.duts.push(dut_v4(1, 10, 0));
    s.peers.push(peer_v4(1, 60, 0));
    s.op(0, Op::SetIpCheck { d: 0, secs: HUGE_IP_CHECK_SECS });
    s.op(0, Op::Monitor { d: 0, slot: 1 });
    let j = [0u64, 10, 124, 249][rng.below(4) as usize];
    s.sched.jitter = vec![vec![j; 4096]];
    let spec = SvcSpec { ty: "_http._tcp.local.".into(), instance: "clash".into(), host: "clashhost.local.".into(), addrs: vec!["192.168.1.10".into()], port: 8080, txt: vec![], addr_auto: false, probe: true, intfs: None, link_local_only: false, txt_via: None };
    let t_reg = 100 + rng.below(500);
    s.op(t_reg, Op::Register { d: 0, svc: spec.clone() });
    // a competing probe with lexicographically later data (higher port) arrives during probing: the DUT loses
    let inst = Name::from_dotted("clash._http._tcp.local.");
    let host = Name::from_dotted("otherhost.local.");
    let mut m = Msg::query();
    m = m.q(&inst, wire::T_ANY);
    m.authorities.push(Rec::srv(&inst, &host, 9999, 120, false));
    m.authorities.push(Rec::txt(&inst, vec![0], 4500, false));
    let t_clash = t_reg + j + [5, 260, 510, 700][rng.below(4) as usize];
    s.op(t_clash, Op::PeerSend { p: 0, v4: true, sport: 5353, msg: m, to: Dest::Mcast });
    s.horizon_ms = t_clash + 8000;
    s.params = serde_json::json!({"jitter": j});
    s.sort_ops();
    s
}

impl Property for C12 {
    fn id(&self) -> &'static str {
        "C12"
    }
    fn count(&self, tier: Tier) -> u64 {
        match tier {
            Tier::Quick => 500,
            Tier::Thorough => 10_000,
        }
    }
    fn rule_text(&self) -> &'static str {
        "seeded worlds on an otherwise silent network (no multicast loop-back in most, no spurious wake-ups, interface poll moved away unless it is the subject): families 'search' (browse / hostname retransmissions, stops, timeouts), 'register' (probe steps, announcement repeat, goodbye repeat), 'browse' (record refresh marks, expiry and its removal event, cache-flush deadline, verify deadline and re-query, follow-up resolves), 'ipcheck' (interval default / huge / zero / changed at run time, with an interface appearing) and 'tiebreak' (a lost simultaneous-probe comparison whose clash is the last packet the daemon receives). Each world is executed twice: silent, and with an extra wake-up every tick ms; packet and event histories must be identical, and the silent run must not contain a run of do-nothing wake-ups requested for 'now'. Non-trivial = a world in which >= 1 packet or event was produced by a timeout wake-up (not by ingress or an API call); distinct by schedule signature."
    }
    fn assumptions(&self) -> Vec<&'static str> {
        vec![
            "a wake-up while nothing is due is a no-op for a daemon that requests a wake-up for every piece of pending work; any difference between the silent and the ticked history is therefore work that depended on an unrelated wake-up",
            "the ticked run can only reveal work that is due before the horizon",
        ]
    }
    fn expected_probes(&self) -> Vec<&'static str> {
        vec!["work-by-timeout:query", "work-by-timeout:probe", "work-by-timeout:announce", "work-by-timeout:goodbye-repeat", "work-by-timeout:event", "family:ipcheck", "family:tiebreak", "family:browse", "family:register", "family:search"]
    }

    fn gen(&self, seed: u64, index: u64, tier: Tier) -> Scenario {
        let rs = mix(seed, index);
        let mut s = match index % 5 {
            0 => {
                let mut s = super::c19::C19.gen(seed, (index / 5) * 4, tier); // silent family of C19
                s.horizon_ms = s.horizon_ms.min(2 * 3600_000);
                s.family = "search".into();
                s
            }
            1 => {
                let mut s = super::respond::gen_world("C12", super::respond::Flavor::C09, seed, (index / 5) * 6, tier);
                s.family = "register".into();
                s
            }
            2 => {
                let mut s = super::browse::gen_browse_world("C12", super::browse::Flavor::C05, seed, (index / 5) * 5, tier);
                s.horizon_ms = s.horizon_ms.min(1800_000);
                s.family = "browse".into();
                s
            }
            3 => gen_ipcheck(rs),
            _ => gen_tiebreak(rs),
        };
        s.prop = "C12".into();
        strict(&mut s);
        s.sched.one_per_step = false;
        if s.family != "tiebreak" {
            s.net.self_loop = index % 7 == 0;
        }
        s.max_steps = s.max_steps.max(20_000);
        s
    }

    fn judge(&self, scn: &Scenario, tr: &Trace) -> Judged {
        let mut j = Judged::default();
        j.probe(&format!("family:{}", scn.family));
        // work done by timeout wake-ups
        for st in tr.steps.iter().filter(|s| s.cause == Cause::Timeout && (s.n_tx > 0 || s.n_ev > 0)) {
            j.nontrivial = true;
            for x in tr.tx.iter().filter(|x| x.step == st.idx) {
                let Some(m) = &x.msg else { continue };
                let kind = if m.is_query() && !m.authorities.is_empty() {
                    "probe"
                } else if m.is_query() {
                    "query"
                } else if m.answers.iter().all(|r| r.ttl == 0) {
                    "goodbye-repeat"
                } else {
                    "announce"
                };
                j.probe(&format!("work-by-timeout:{kind}"));
            }
            if st.n_ev > 0 {
                j.probe("work-by-timeout:event");
            }
        }
        // (b) spin detection
        let mut run = 0u64;
        let mut run_start = 0u64;
        let mut worst = 0u64;
        let mut worst_at = 0u64;
        for st in tr.steps.iter().filter(|s| s.d == 0) {
            let idle = st.n_rx == 0 && st.n_tx == 0 && st.n_ev == 0 && st.timeout.map(|t| t <= 1).unwrap_or(false) && st.cause == Cause::Timeout;
            if idle {
                if run == 0 {
                    run_start = st.t;
                }
                run += 1;
                if run > worst {
                    worst = run;
                    worst_at = run_start;
                }
            } else {
                run = 0;
            }
        }
        j.judgements += 1;
        if worst > 25 {
            let zero_interval = scn.ops.iter().any(|o| matches!(o.op, Op::SetIpCheck { secs: 0, .. }));
            j.fail(
                "C12-R3",
                format!(
                    "{} consecutive wake-ups from t={} ms that each asked to be woken again within 1 ms and produced no packet and no event (a spin){}",
                    worst,
                    worst_at,
                    if zero_interval { "; the interface-check interval was set to zero" } else { "" }
                ),
            );
        }
        let capped = tr.fatal.iter().any(|f| f.kind == "step-cap");
        // a run that merely is busy (many short-lived records being refreshed) may hit the step cap: not judged further
        if capped || worst > 25 {
            return j;
        }
        // (a) metamorphic: extra wake-ups must not change the history
        let mut v = scn.clone();
        let dur = scn.horizon_ms;
        v.sched.tick_ms = if dur <= 20_000 {
            37
        } else if dur <= 600_000 {
            211
        } else {
            1009
        };
        v.max_steps = scn.max_steps + dur / v.sched.tick_ms + 1000;
        let tv = world::execute(&v, world::NO_COUNT);
        if tv.fatal.iter().any(|f| f.kind == "hang" || f.kind == "panic") {
            return j;
        }
        j.judgements += 1;
        let end = tr.stats.sim_ms.min(tv.stats.sim_ms).saturating_sub(2);
        // canonical content: the order of questions and of records inside a section follows hash-map iteration
        // order, which the number of earlier loop iterations perturbs
        let canon = |x: &Tx| -> Vec<u8> {
            match &x.msg {
                Some(m) => {
                    let mut c = m.clone();
                    c.questions.sort_by_key(|q| format!("{q:?}"));
                    c.answers.sort_by_key(|r| format!("{r:?}"));
                    c.authorities.sort_by_key(|r| format!("{r:?}"));
                    c.additionals.sort_by_key(|r| format!("{r:?}"));
                    wire::encode(&c, false)
                }
                None => x.bytes.clone(),
            }
        };
        let key_tx = |x: &Tx| (x.t, x.if_index, x.v4, canon(x));
        // (the order of packets sent within one millisecond depends on hash-map iteration order, which the
        // number of earlier loop iterations perturbs: compare as multisets per instant)
        let mut a: Vec<_> = tr.tx.iter().filter(|x| x.t <= end).map(key_tx).collect();
        let mut b: Vec<_> = tv.tx.iter().filter(|x| x.t <= end).map(key_tx).collect();
        a.sort();
        b.sort();
        if a != b {
            // first difference
            let mut i = 0;
            while i < a.len() && i < b.len() && a[i] == b[i] {
                i += 1;
            }
            let desc = |v: &Vec<(u64, Option<u32>, bool, Vec<u8>)>, i: usize| -> String {
                match v.get(i) {
                    Some((t, ifx, v4, bytes)) => format!("t={} if{:?} {} {}", t, ifx, if *v4 { "v4" } else { "v6" }, wire::parse(bytes).map(|m| wire::summarize(&m)).unwrap_or_default()),
                    None => "nothing more".into(),
                }
            };
            let tie = if scn.family == "tiebreak" { " (retry after a lost simultaneous-probe comparison)" } else { "" };
            j.fail(
                "C12-R1",
                format!(
                    "packet history depends on unrelated wake-ups{}: silent run sends [{}] where the run with a wake-up every {} ms sends [{}] (packet #{}); work was pending without a wake-up request",
                    tie,
                    desc(&a, i).chars().take(300).collect::<String>(),
                    v.sched.tick_ms,
                    desc(&b, i).chars().take(300).collect::<String>(),
                    i
                ),
            );
            return j;
        }
        let key_ev = |e: &Ev| (e.t, e.d, e.slot, format!("{:?}", e.ev));
        let mut ea: Vec<_> = tr.events.iter().filter(|e| e.t <= end).map(key_ev).collect();
        let mut eb: Vec<_> = tv.events.iter().filter(|e| e.t <= end).map(key_ev).collect();
        ea.sort();
        eb.sort();
        if ea != eb {
            let mut i = 0;
            while i < ea.len() && i < eb.len() && ea[i] == eb[i] {
                i += 1;
            }
            j.fail(
                "C12-R2",
                format!(
                    "event history depends on unrelated wake-ups: silent run delivers {:?} where the run with a wake-up every {} ms delivers {:?} (event #{})",
                    ea.get(i).map(|e| (e.0, e.2, e.3.chars().take(160).collect::<String>())),
                    v.sched.tick_ms,
                    eb.get(i).map(|e| (e.0, e.2, e.3.chars().take(160).collect::<String>())),
                    i
                ),
            );
        }
        j
    }
}
