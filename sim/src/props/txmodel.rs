//! Responder model (TX): the services as the daemon has processed them, derived from the
//! scenario's API calls and the trace, and what a response must / may contain per the
//! statements of C06/C07/C09/C10.

use super::model::{consumed_in, dut_steps};
use crate::scenario::*;
use crate::trace::*;
use crate::wire::{self, Name, Question, RData, Rec};
use std::net::IpAddr;

#[derive(Clone, Debug)]
pub struct Svc {
    pub spec: SvcSpec,
    pub op: usize,
    pub ty: Name,
    pub sub: Option<Name>,
    pub fullname: Name,
    pub host: Name,
    pub txt: Vec<u8>,
    pub addrs: Vec<IpAddr>,
    /// global step that consumed the register call, its time, and the order of the call
    pub reg_step: usize,
    pub reg_t: u64,
    pub reg_order: usize,
    /// consumed unregister (or shutdown, or replacement by a re-registration)
    pub end_step: Option<usize>,
    pub end_t: Option<u64>,
    pub end_order: Option<usize>,
    pub end_kind: Option<&'static str>,
}

pub fn split_sub(ty: &str) -> (String, Option<String>) {
    match ty.rsplit_once("._sub.") {
        Some((_, base)) => (base.to_string(), Some(ty.to_string())),
        None => (ty.to_string(), None),
    }
}

pub fn fullname_of(spec: &SvcSpec) -> Name {
    let (base, _) = split_sub(&spec.ty);
    let mut labels = vec![spec.instance.as_bytes().to_vec()];
    labels.extend(Name::from_dotted(&base).0);
    Name(labels)
}

pub fn accepted_txt(spec: &SvcSpec) -> Vec<u8> {
    // reference encoding: first occurrence of a key (ci) wins for slice input; vec input is taken as is
    wire::txt_encode(&spec.txt)
}

pub struct TxModel {
    pub d: usize,
    pub svcs: Vec<Svc>,
    pub ds: Vec<usize>,
}

pub fn addr_in_subnet(addr: &IpAddr, a: &AddrSpec) -> bool {
    let Ok(ip) = a.ip.parse::<IpAddr>() else { return false };
    match (addr, ip) {
        (IpAddr::V4(x), IpAddr::V4(y)) => {
            let p = a.prefix.min(32) as u32;
            let mask = if p == 0 { 0 } else { u32::MAX << (32 - p) };
            u32::from(*x) & mask == u32::from(y) & mask
        }
        (IpAddr::V6(x), IpAddr::V6(y)) => {
            let p = a.prefix.min(128) as u32;
            let mask = if p == 0 { 0 } else { u128::MAX << (128 - p) };
            u128::from(*x) & mask == u128::from(y) & mask
        }
        _ => false,
    }
}

impl TxModel {
    pub fn build(scn: &Scenario, tr: &Trace, d: usize) -> TxModel {
        let ds = dut_steps(tr, d);
        let mut svcs: Vec<Svc> = vec![];
        for (order, a) in tr.api.iter().enumerate() {
            if a.d != d || a.outcome != ApiOutcome::Ok {
                continue;
            }
            // calls made from the yield plan (at a yield point of the daemon) count like scripted ones
            let the_op: &Op = if a.op == usize::MAX {
                match &a.yield_op {
                    Some(o) => o,
                    None => continue,
                }
            } else {
                &scn.ops[a.op].op
            };
            let Some(step) = consumed_in(&ds, a) else { continue };
            let t = tr.steps[step].t;
            match the_op {
                Op::Register { svc, .. } => {
                    let (base, sub) = split_sub(&svc.ty);
                    let fullname = fullname_of(svc);
                    // replacement of an earlier registration with the same name
                    for s in svcs.iter_mut() {
                        if s.end_step.is_none() && s.fullname.eq_ci(&fullname) {
                            s.end_step = Some(step);
                            s.end_t = Some(t);
                            s.end_order = Some(order);
                            s.end_kind = Some("replaced");
                        }
                    }
                    svcs.push(Svc {
                        spec: svc.clone(),
                        op: a.op,
                        ty: Name::from_dotted(&base),
                        sub: sub.map(|s| Name::from_dotted(&s)),
                        fullname,
                        host: Name::from_dotted(&svc.host),
                        txt: accepted_txt(svc),
                        addrs: svc.addrs.iter().filter_map(|s| s.parse().ok()).collect(),
                        reg_step: step,
                        reg_t: t,
                        reg_order: order,
                        end_step: None,
                        end_t: None,
                        end_order: None,
                        end_kind: None,
                    });
                }
                Op::Unregister { fullname, .. } => {
                    let n = Name::from_dotted(&fullname.to_lowercase());
                    // exact (lower-cased) string comparison as the API does; names with escapes are compared as strings
                    for s in svcs.iter_mut() {
                        if s.end_step.is_none() && s.fullname.escaped().to_lowercase() == fullname.to_lowercase() || (s.end_step.is_none() && s.fullname.lower() == n) {
                            s.end_step = Some(step);
                            s.end_t = Some(t);
                            s.end_order = Some(order);
                            s.end_kind = Some("unregistered");
                        }
                    }
                }
                Op::Shutdown { .. } => {
                    for s in svcs.iter_mut() {
                        if s.end_step.is_none() {
                            s.end_step = Some(step);
                            s.end_t = Some(t);
                            s.end_order = Some(order);
                            s.end_kind = Some("shutdown");
                        }
                    }
                }
                _ => {}
            }
        }
        TxModel { d, svcs, ds }
    }

    /// Service addresses of family `v4` inside the subnets of interface `ifx`.
    pub fn link_addrs(&self, scn: &Scenario, s: &Svc, ifx: u32, v4: bool) -> Vec<IpAddr> {
        let Some(i) = scn.duts[self.d].ifs.iter().find(|i| i.index == ifx) else { return vec![] };
        let mut v: Vec<IpAddr> = s.addrs.iter().filter(|a| a.is_ipv4() == v4 && i.addrs.iter().any(|x| addr_in_subnet(a, x))).copied().collect();
        v.sort();
        v.dedup();
        v
    }

    /// (if_index, v4) pairs on which the service can be published at all.
    pub fn usable(&self, scn: &Scenario, s: &Svc) -> Vec<(u32, bool)> {
        let cfg = &scn.duts[self.d];
        let mut v = vec![];
        for (ifx, v4) in super::common::channels(&cfg.ifs, cfg.v4, cfg.v6) {
            if !self.link_addrs(scn, s, ifx, v4).is_empty() {
                v.push((ifx, v4));
            }
        }
        v
    }

    pub fn srv_rec(&self, s: &Svc, ttl: u32, flush: bool) -> Rec {
        Rec::srv(&s.fullname, &s.host, s.spec.port, ttl, flush)
    }

    /// First announcement of service `si` on (ifx, v4): the first response of the DUT on that
    /// channel, at or after registration, whose answer section holds an SRV owned by the service.
    pub fn first_announce<'t>(&self, tr: &'t Trace, si: usize, ifx: u32, v4: bool) -> Option<&'t Tx> {
        let s = &self.svcs[si];
        tr.tx.iter().find(|x| {
            x.d == self.d
                && x.step >= s.reg_step
                && s.end_step.map(|e| x.step <= e).unwrap_or(true)
                && x.if_index == Some(ifx)
                && x.v4 == v4
                && x.mcast
                && x.msg.as_ref().map(|m| m.is_response() && m.answers.iter().any(|r| r.ty == wire::T_SRV && r.ttl > 0 && r.name.eq_ci(&s.fullname) && matches!(&r.rdata, RData::Srv{port, ..} if *port == s.spec.port)) && m.answers.iter().any(|r| r.ty == wire::T_PTR)
                    // (an announcement carries the TXT of the registration in its answer section; a re-registration may keep the
                    // port and change only the TXT, and an answer of the earlier registration to a query read in the step that
                    // consumed the re-registration - PTR and SRV as answers, TXT as additional - is not its announcement)
                    && m.answers.iter().any(|r| r.ty == wire::T_TXT && r.name.eq_ci(&s.fullname) && matches!(&r.rdata, RData::Txt(b) if *b == s.txt))).unwrap_or(false)
        })
    }

    /// Step in which the service became "announced" on interface ifx (any family).
    pub fn announced_step(&self, scn: &Scenario, tr: &Trace, si: usize, ifx: u32) -> Option<usize> {
        let _ = scn;
        [true, false].iter().filter_map(|v4| self.first_announce(tr, si, ifx, *v4).map(|x| x.step)).min()
    }

    /// Is the service registered and announced on ifx as seen by a packet processed in step `step`?
    pub fn active_for_packet(&self, scn: &Scenario, tr: &Trace, si: usize, ifx: u32, step: usize) -> bool {
        let s = &self.svcs[si];
        if s.reg_step >= step {
            return false;
        }
        if let Some(e) = s.end_step {
            if e < step {
                return false;
            }
        }
        match self.announced_step(scn, tr, si, ifx) {
            Some(a) => a < step,
            None => false,
        }
    }
}

#[derive(Default, Debug)]
pub struct Expect {
    /// records that must be present (any section)
    pub required: Vec<Rec>,
    /// records that may additionally be present
    pub allowed: Vec<Rec>,
}

pub const META: &str = "_services._dns-sd._udp.local.";

/// What a response to `qs` arriving on (ifx, v4) must / may contain, per the statement of C06.
pub fn expect_for(m: &TxModel, scn: &Scenario, tr: &Trace, qs: &[Question], ifx: u32, v4: bool, step: usize, legacy: bool) -> Expect {
    let mut e = Expect::default();
    let fl = !legacy;
    let push = |v: &mut Vec<Rec>, r: Rec| {
        if !v.iter().any(|x| x.same_data(&r)) {
            v.push(r);
        }
    };
    for q in qs {
        for (si, s) in m.svcs.iter().enumerate() {
            if !m.active_for_packet(scn, tr, si, ifx, step) {
                continue;
            }
            let a_fam = m.link_addrs(scn, s, ifx, v4);
            let a4 = m.link_addrs(scn, s, ifx, true);
            let a6 = m.link_addrs(scn, s, ifx, false);
            let addr_recs = |addrs: &[IpAddr]| -> Vec<Rec> {
                addrs
                    .iter()
                    .map(|a| match a {
                        IpAddr::V4(x) => Rec::a(&s.host, x.octets(), 120, fl),
                        IpAddr::V6(x) => Rec::aaaa(&s.host, x.octets(), 120, fl),
                    })
                    .collect()
            };
            if q.ty == wire::T_PTR {
                let is_ty = q.name.dotted() == s.ty.dotted();
                let is_sub = s.sub.as_ref().map(|x| x.dotted() == q.name.dotted()).unwrap_or(false);
                if (is_ty || is_sub) && !a_fam.is_empty() {
                    if is_ty {
                        push(&mut e.required, Rec::ptr(&s.ty, &s.fullname, 4500));
                        if let Some(sub) = &s.sub {
                            push(&mut e.allowed, Rec::ptr(sub, &s.fullname, 4500));
                        }
                    } else {
                        push(&mut e.required, Rec::ptr(s.sub.as_ref().unwrap(), &s.fullname, 4500));
                        push(&mut e.allowed, Rec::ptr(&s.ty, &s.fullname, 4500));
                    }
                    push(&mut e.required, m.srv_rec(s, 120, fl));
                    push(&mut e.required, Rec::txt(&s.fullname, s.txt.clone(), 4500, fl));
                    for r in addr_recs(&a_fam) {
                        push(&mut e.required, r);
                    }
                } else if q.name.dotted() == META {
                    push(&mut e.required, Rec::ptr(&Name::from_dotted(META), &s.ty, 4500));
                }
            } else {
                if matches!(q.ty, wire::T_A | wire::T_AAAA | wire::T_ANY) && q.name.eq_ci(&s.host) {
                    if q.ty == wire::T_A || q.ty == wire::T_ANY {
                        for r in addr_recs(&a4) {
                            push(&mut e.required, r);
                        }
                    }
                    if q.ty == wire::T_AAAA || q.ty == wire::T_ANY {
                        for r in addr_recs(&a6) {
                            push(&mut e.required, r);
                        }
                    }
                }
                if q.name.eq_ci(&s.fullname) && !a_fam.is_empty() {
                    if q.ty == wire::T_SRV || q.ty == wire::T_ANY {
                        push(&mut e.required, m.srv_rec(s, 120, fl));
                    }
                    if q.ty == wire::T_TXT || q.ty == wire::T_ANY {
                        push(&mut e.required, Rec::txt(&s.fullname, s.txt.clone(), 4500, fl));
                    }
                    if q.ty == wire::T_SRV {
                        for r in addr_recs(&a_fam) {
                            push(&mut e.allowed, r);
                        }
                    }
                }
            }
        }
    }
    e
}
