//! C17 — hostname resolution: right addresses, case-insensitive, ends on time.

use super::common::*;
use super::model::*;
use super::{Judged, Property, Tier};
use crate::rng::{mix, Rng};
use crate::scenario::*;
use crate::trace::*;
use crate::wire::{self, Msg, Name, Rec};

pub struct C17;

fn variant(rng: &mut Rng, base: &str) -> String {
    let b = base.trim_end_matches(".local.");
    let v: String = match rng.below(4) {
        0 => b.to_string(),
        1 => b.to_uppercase(),
        2 => b.to_lowercase(),
        _ => b.chars().enumerate().map(|(i, c)| if i % 2 == 1 { c.to_ascii_uppercase() } else { c.to_ascii_lowercase() }).collect(),
    };
    format!("{v}.local.")
}

impl Property for C17 {
    fn id(&self) -> &'static str {
        "C17"
    }
    fn count(&self, tier: Tier) -> u64 {
        match tier {
            Tier::Quick => 1500,
            Tier::Thorough => 30_000,
        }
    }
    fn rule_text(&self) -> &'static str {
        "seeded worlds: a DUT (1-2 interfaces, v4 / dual) calls resolve_hostname(name, timeout) with the name in lower / upper / mixed case and timeouts none, 0, 1, 500, 1000, 2999, 3000, 3001, 10^6 ms; a peer owns the host under its own spelling with 1-4 v4/v6 addresses that change over time (added with or without cache-flush, withdrawn by goodbye, expiring with TTL 1..120 s), answers queries or stays silent; a concurrent browse of a service on the same host in some worlds; profiles strict, latency, lossy. Rules: every reported address is justified by a live record of that name (ignoring case) learned on the tagged interface; a newly accepted address is in an AddressesFound of the same step; an address whose record ends (TTL, goodbye+1 s, flush+1 s) is in an AddressesRemoved at that time (strict: that millisecond); cached addresses are replayed to a new search at once; no query at or after the deadline. Non-trivial = a world with an address found under a case mismatch, or a timeout reached, or an address removed; distinct by schedule signature."
    }
    fn assumptions(&self) -> Vec<&'static str> {
        vec!["completeness and removal timing are demanded only for definitely-accepted deliveries in fault-free networks; soundness is checked in all profiles"]
    }
    fn expected_probes(&self) -> Vec<&'static str> {
        vec!["found-under-case-mismatch", "timeout-reached", "address-removed-by-ttl", "address-removed-by-goodbye", "address-removed-by-flush", "cached-replay", "v6-address", "two-interfaces"]
    }

    fn gen(&self, seed: u64, index: u64, tier: Tier) -> Scenario {
        let rs = mix(seed, index);
        let mut rng = Rng::new(rs, 0x17);
        let profile = match index % 5 {
            0..=2 => "strict",
            3 => "latency",
            _ => "lossy",
        };
        let mut s = Scenario::new("C17", profile, rs);
        strict(&mut s);
        if profile == "latency" {
            s.sched.max_latency = [5, 40][rng.below(2) as usize];
        }
        if profile == "lossy" {
            s.net.drop_pm = [100, 300][rng.below(2) as usize];
            s.net.dup_pm = 100;
            s.net.late_pm = 100;
            s.net.late_max_ms = 2500;
        }
        s.net.self_loop = rng.bool();
        let n_if = 1 + rng.below(2) as usize;
        let mut ifs = vec![];
        for i in 0..n_if {
            let v4 = format!("192.168.{}.10", 1 + i);
            let v6 = format!("fe80::{:x}:10", 1 + i);
            ifs.push(simple_if(&format!("eth{i}"), 2 + i as u32, Some((&v4, 24)), if rng.bool() { Some((&v6, 64)) } else { None }, i));
        }
        s.duts.push(DutCfg { ifs: ifs.clone(), v4: true, v6: true, epoch_off: 0, yields: false });
        s.op(0, Op::SetIpCheck { d: 0, secs: HUGE_IP_CHECK_SECS });
        let base = ["printer.local.", "Media-Box.local.", "NAS.local."][rng.below(3) as usize];
        let peer_spelling = variant(&mut rng, base);
        let hn = Name::from_dotted(&peer_spelling);
        // how unsolicited address records travel: alone, or inside the announcement of a service of another type on that
        // host (its PTR leads the answer section; the packet is still for us because it carries an address of the host)
        let wrap = |rng: &mut Rng, recs: &[Rec]| -> Msg {
            if rng.below(3) != 0 {
                return announce(recs);
            }
            let mut m = Msg::response();
            m.answers.push(Rec::ptr(&Name::from_dotted("_workstation._tcp.local."), &Name::from_dotted("ws._workstation._tcp.local."), 4500));
            m.answers.extend(recs.iter().cloned());
            m
        };
        // peers: one per segment, same host name (a multi-homed host)
        let ttl = [1u32, 2, 5, 10, 60, 120][rng.below(6) as usize];
        let mut t_last = 0u64;
        for (k, i) in ifs.iter().enumerate() {
            if k > 0 && rng.bool() {
                continue;
            }
            let dual = i.addrs.len() > 1;
            let mut p = PeerCfg { seg: i.seg, v4: Some(format!("192.168.{}.60", 1 + k)), v6: if dual { Some(format!("fe80::{:x}:60", 1 + k)) } else { None }, responder: None };
            let mut recs: Vec<Rec> = vec![Rec::a(&hn, ip4(&format!("192.168.{}.60", 1 + k)), ttl, true)];
            if rng.below(3) == 0 {
                recs.push(Rec::a(&hn, ip4(&format!("192.168.{}.61", 1 + k)), ttl, true));
            }
            if dual && rng.bool() {
                recs.push(Rec::aaaa(&hn, ip6(&format!("fe80::{:x}:60", 1 + k)), ttl, true));
            }
            let answers = rng.below(4) != 0;
            if answers {
                p.responder = Some(ResponderCfg { records: recs.clone(), delay_ms: 10 + rng.below(80), honor_known_answers: false, additionals: false, active: true, max_answers: if rng.below(3) == 0 { Some(1 + rng.below(3) as u32) } else { None }, skip_first: rng.below(2) as u32, conflict_probes: 0 });
            }
            let pi = s.peers.len();
            s.peers.push(p);
            // unsolicited history
            let mut t = 300 + rng.below(3000);
            for _ in 0..rng.below(4) {
                match rng.below(5) {
                    0 => s.op(t, Op::PeerSend { p: pi, v4: true, sport: 5353, msg: wrap(&mut rng, &recs), to: Dest::Mcast }),
                    1 => {
                        // new address, with or without cache-flush
                        let r = Rec::a(&hn, ip4(&format!("192.168.{}.{}", 1 + k, 70 + rng.below(20))), ttl, rng.bool());
                        s.op(t, Op::PeerSend { p: pi, v4: true, sport: 5353, msg: wrap(&mut rng, &[r.clone()]), to: Dest::Mcast });
                        if rng.bool() {
                            recs.push(r);
                            s.op(t, Op::PeerSet { p: pi, records: recs.clone() });
                        }
                    }
                    2 => {
                        let r = recs[rng.below(recs.len() as u64) as usize].clone();
                        s.op(t, Op::PeerSend { p: pi, v4: true, sport: 5353, msg: goodbye(&[r.clone()]), to: Dest::Mcast });
                        recs.retain(|x| x != &r);
                        if recs.is_empty() {
                            s.op(t, Op::PeerActive { p: pi, on: false });
                        } else {
                            s.op(t, Op::PeerSet { p: pi, records: recs.clone() });
                        }
                    }
                    3 => s.op(t, Op::PeerActive { p: pi, on: false }),
                    _ => s.op(t, Op::PeerActive { p: pi, on: true }),
                }
                if recs.is_empty() {
                    break;
                }
                t_last = t_last.max(t);
                t += 200 + rng.below(ttl as u64 * 1200 + 2000);
            }
        }
        // searches
        let mut slot = 10;
        let n_s = 1 + rng.below(2);
        let mut t = rng.below(2500);
        for _ in 0..n_s {
            let name = variant(&mut rng, base);
            let timeout = if rng.below(2) == 0 { Some([0u64, 1, 500, 1000, 2999, 3000, 3001, 1_000_000][rng.below(8) as usize]) } else { None };
            s.op(t, Op::ResolveHost { d: 0, host: name.clone(), timeout, slot });
            slot += 1;
            if rng.below(3) == 0 {
                let ts = t + 1 + rng.below(9000);
                s.op(ts, Op::StopResolveHost { d: 0, host: variant(&mut rng, base) });
            }
            t_last = t_last.max(t + timeout.unwrap_or(0).min(10_000));
            t += 500 + rng.below(8000);
        }
        if rng.below(4) == 0 {
            // a browse whose instance lives on the same host
            let ir = instance_recs("_http._tcp.local.", "web", &peer_spelling, 80, &[], &[], vec![0], 120, ttl);
            s.op(rng.below(2000), Op::Browse { d: 0, ty: "_http._tcp.local.".into(), slot: 90 });
            s.op(1000 + rng.below(3000), Op::PeerSend { p: 0, v4: true, sport: 5353, msg: announce(&[ir.ptr.clone(), ir.srv.clone(), ir.txt.clone()]), to: Dest::Mcast });
        }
        if rng.below(3) == 0 {
            // a concurrent search for another host, of which nobody has records: its channel must stay free of the
            // first host's addresses (drawn last, so that the rest of the world is what it was before this was added)
            let other = ["printer.local.", "Media-Box.local.", "NAS.local."].iter().find(|b| **b != base).unwrap();
            let timeout = if rng.bool() { Some(4000) } else { None };
            s.op(rng.below(3000), Op::ResolveHost { d: 0, host: variant(&mut rng, other), timeout, slot: 40 });
        }
        let mult = match tier {
            Tier::Quick => 3,
            Tier::Thorough => 8,
        };
        s.horizon_ms = t_last + (ttl as u64) * 1000 * mult + 6000;
        s.max_steps = 8000;
        s.sort_ops();
        s
    }

    fn judge(&self, scn: &Scenario, tr: &Trace) -> Judged {
        let mut j = Judged::default();
        let d = 0;
        let m = RxModel::build(scn, tr, d);
        let sl = scn.sched.max_latency + 2;
        let hw = host_windows(scn, tr, d);
        let clean = scn.net.drop_pm == 0 && scn.net.dup_pm == 0 && scn.net.late_pm == 0 && !scn.ops.iter().any(|o| matches!(o.op, Op::Stall { .. }));
        let strict_run = clean && scn.sched.max_latency == 0;
        if scn.duts[0].ifs.len() > 1 {
            j.probe("two-interfaces");
        }
        for w in &hw {
            let name = Name::from_dotted(&w.key);
            let asked = scn.ops.iter().find_map(|o| match &o.op {
                Op::ResolveHost { host, slot, .. } if *slot == w.slot => Some(host.clone()),
                _ => None,
            });
            let evs: Vec<&Ev> = tr.events.iter().filter(|e| e.d == d && e.slot == w.slot).collect();
            if w.closed_by == "timeout" {
                j.probe("timeout-reached");
                j.nontrivial = true;
            }
            // all address records for the name
            let addr_idx: Vec<usize> = m.find(&name, wire::T_A).into_iter().chain(m.find(&name, wire::T_AAAA)).collect();
            // ---- R1 soundness
            let mut reported: Vec<(std::net::IpAddr, u32, u64)> = vec![]; // (ip, if, t found)
            for e in &evs {
                match &e.ev {
                    EvKind::HFound(n, addrs) => {
                        j.judgements += 1;
                        if !Name::from_dotted(n).eq_ci(&name) {
                            j.fail("C17-R1", format!("AddressesFound for {} on the channel of resolve_hostname({})", n, w.key));
                        }
                        if let Some(a) = &asked {
                            if n != a {
                                j.probe("found-under-case-mismatch");
                                j.nontrivial = true;
                            }
                        }
                        for a in addrs {
                            if a.ip.is_ipv6() {
                                j.probe("v6-address");
                            }
                            if a.intfs.is_empty() {
                                j.fail("C17-R1", format!("AddressesFound({}) at t={}: {} carries no interface tag", n, e.t, a.ip));
                            }
                            for (ifname, ifx) in &a.intfs {
                                let ok = addr_idx.iter().any(|&i| rec_ip(&m.recs[i].rec) == Some(a.ip) && m.live_at(i, e.t, Some(*ifx), Mode::Possibly, sl));
                                if !ok {
                                    j.fail("C17-R1", format!("AddressesFound({}) at t={}: {} tagged {}({}) is not justified by a live address record for that name received on that interface", n, e.t, a.ip, ifname, ifx));
                                }
                                reported.push((a.ip, *ifx, e.t));
                            }
                        }
                    }
                    EvKind::HRemoved(n, addrs) => {
                        j.judgements += 1;
                        for a in addrs {
                            for (_, ifx) in &a.intfs {
                                // was it found, and is it not definitely live any more?
                                let was_found = reported.iter().any(|(ip, i, t)| *ip == a.ip && *i == *ifx && *t <= e.t);
                                let still_live = addr_idx.iter().any(|&i| rec_ip(&m.recs[i].rec) == Some(a.ip) && m.live_at(i, e.t, Some(*ifx), Mode::Definitely, sl + 1));
                                if !was_found && clean {
                                    j.fail("C17-R3", format!("AddressesRemoved({}) at t={}: {} on if{} was never reported found", n, e.t, a.ip, ifx));
                                }
                                if still_live {
                                    j.fail("C17-R3", format!("AddressesRemoved({}) at t={}: {} on if{} is still live (its record has not ended)", n, e.t, a.ip, ifx));
                                }
                            }
                        }
                    }
                    _ => {}
                }
            }
            // ---- R6 cached replay: records definitely live when the search opened are in an HFound of the opening step
            for &i in &addr_idx {
                let Some(ip) = rec_ip(&m.recs[i].rec) else { continue };
                for ifx in scn.duts[0].ifs.iter().map(|x| x.index) {
                    // known (certainly) before the opening step?
                    let before = m.recs[i].arrivals.iter().any(|a| a.if_index == ifx && a.step < w.open_step && a.certain);
                    if before && m.live_at_s(i, w.open_t, w.open_step.saturating_sub(1), Some(ifx), Mode::Definitely, sl + 1000) && clean {
                        j.judgements += 1;
                        j.probe("cached-replay");
                        let hit = evs.iter().any(|e| e.step == w.open_step && matches!(&e.ev, EvKind::HFound(_, addrs) if addrs.iter().any(|a| a.ip == ip && a.intfs.iter().any(|(_, x)| *x == ifx))));
                        if !hit {
                            j.fail("C17-R6", format!("resolve_hostname({}) at t={}: cached address {} (if{}) was not reported in the opening step", w.key, w.open_t, ip, ifx));
                        }
                    }
                }
            }
            if !clean {
                j.abstained += 1;
                continue;
            }
            // ---- R2 completeness: first certain arrival inside the window => HFound in that step
            for &i in &addr_idx {
                let Some(ip) = rec_ip(&m.recs[i].rec) else { continue };
                for a in m.recs[i].arrivals.iter().filter(|a| a.certain && a.step > w.open_step && a.step <= w.close_step && a.ttl > 0) {
                    // new = not live just before this arrival (on that interface)
                    // (an arrival in the very millisecond the old copy expires may count as a refresh: not judged)
                    let was_live = m.live_at_s(i, a.t, a.step.saturating_sub(1), Some(a.if_index), Mode::Possibly, sl + 2);
                    if was_live {
                        continue;
                    }
                    j.judgements += 1;
                    let hit = evs.iter().any(|e| e.step == a.step && matches!(&e.ev, EvKind::HFound(_, addrs) if addrs.iter().any(|x| x.ip == ip && x.intfs.iter().any(|(_, f)| *f == a.if_index))));
                    if !hit {
                        j.fail("C17-R2", format!("address {} for {} accepted at t={} on if{} but no AddressesFound containing it in that step", ip, m.recs[i].rec.name.escaped(), a.t, a.if_index));
                    }
                }
            }
            // ---- R3 removal timing: ends of definite life intervals inside the window
            for &i in &addr_idx {
                let Some(ip) = rec_ip(&m.recs[i].rec) else { continue };
                for ifx in scn.duts[0].ifs.iter().map(|x| x.index) {
                    let iv = m.intervals(i, Some(ifx), Mode::Definitely);
                    for &(st, e) in iv.iter() {
                        if e <= w.open_t || e + sl >= w.close_t || e + sl >= tr.stats.sim_ms {
                            continue;
                        }
                        // possibly still live (uncertain refresh)? then not judged
                        if m.live_at(i, e, Some(ifx), Mode::Possibly, 0) {
                            continue;
                        }
                        // refreshed before the daemon could have noticed the expiry (it may be woken up to L late)?
                        if m.recs[i].arrivals.iter().any(|a| a.if_index == ifx && a.t >= e && a.t <= e + sl) {
                            continue;
                        }
                        // it must have been reported to this channel
                        let was_found = reported.iter().any(|(p, f, t)| *p == ip && *f == ifx && *t <= e && *t >= st.min(w.open_t));
                        if !was_found {
                            continue;
                        }
                        j.judgements += 1;
                        j.nontrivial = true;
                        // why did it end?
                        let last = m.recs[i].arrivals.iter().filter(|a| a.if_index == ifx && a.t < e).last();
                        let why = match last {
                            Some(a) if a.ttl == 0 => "address-removed-by-goodbye",
                            Some(a) if a.t + (a.ttl.max(1) as u64) * 1000 == e => "address-removed-by-ttl",
                            _ => "address-removed-by-flush",
                        };
                        j.probe(why);
                        let hit = evs.iter().any(|ev| ev.t >= e && ev.t <= e + sl && (!strict_run || ev.t == e) && matches!(&ev.ev, EvKind::HRemoved(_, addrs) if addrs.iter().any(|x| x.ip == ip && x.intfs.iter().any(|(_, f)| *f == ifx))));
                        if !hit {
                            j.fail(
                                "C17-R3",
                                format!("address {} (if{}) of {} ended its life at t={} ({}) but no AddressesRemoved for it in [{}, {}]; removals seen: {:?}", ip, ifx, w.key, e, why.trim_start_matches("address-removed-by-"), e, e + sl, evs.iter().filter(|x| matches!(x.ev, EvKind::HRemoved(..))).map(|x| x.t).collect::<Vec<_>>()),
                            );
                        }
                    }
                }
            }
            // ---- R4: refresh before expiry while the search is open: a query of the record's type at 80 % of its life
            if clean && !tr.events.iter().any(|e| e.d == d && e.slot == 90) {
                let end = tr.stats.sim_ms;
                for &i in &addr_idx {
                    let ty = m.recs[i].rec.ty;
                    let q = queries_for(tr, d, &name, ty);
                    let mut arr: Vec<&Arrival> = m.recs[i].arrivals.iter().collect();
                    arr.sort_by_key(|a| (a.t, a.step));
                    for (k, a) in arr.iter().enumerate() {
                        if a.ttl <= 1 || !a.certain {
                            continue;
                        }
                        let mark = a.t + a.ttl as u64 * 800;
                        // superseded by a later copy on that interface, or cut short (goodbye, flush) before the mark?
                        if arr.iter().skip(k + 1).any(|n| n.if_index == a.if_index && n.t <= mark + sl) {
                            continue;
                        }
                        if !m.live_at(i, mark + sl, Some(a.if_index), Mode::Definitely, 0) || !m.live_at(i, a.t, Some(a.if_index), Mode::Definitely, 0) {
                            continue;
                        }
                        // the search must be open from the arrival to the mark
                        if !(w.open_step < a.step && w.open_t <= a.t && mark + sl + 2 < w.close_t && mark + sl + 2 < end) {
                            continue;
                        }
                        j.judgements += 1;
                        j.probe("refresh-mark-reached");
                        if !q.iter().any(|x| x.t >= mark && x.t <= mark + sl) {
                            j.fail("C17-R4", format!("address record {}:{} {:?} of {} received at t={} with TTL {} s on if{} was not refreshed: no query of that type in [{}, {}] (80 % of its life) while the search was open; queries of that type at {:?}", name.escaped(), wire::ty_name(ty), rec_ip(&m.recs[i].rec), w.key, a.t, a.ttl, a.if_index, mark, mark + sl, q.iter().map(|x| x.t).rev().take(8).rev().collect::<Vec<_>>()));
                        }
                    }
                }
            }
            // ---- R5: no query for the name at or after the deadline (timeouts)
            if w.closed_by == "timeout" && !tr.events.iter().any(|e| e.d == d && e.slot == 90) {
                let later_search = hw.iter().any(|o| !std::ptr::eq(o, w) && o.key == w.key && o.open_t >= w.close_t);
                if !later_search {
                    j.judgements += 1;
                    let q = queries_for(tr, d, &name, wire::T_A);
                    if let Some(bad) = q.iter().find(|q| q.t >= w.close_t + sl) {
                        j.fail("C17-R5", format!("resolve_hostname({}) reached its deadline at t={} but a query for it went out at t={}", w.key, w.close_t, bad.t));
                    }
                }
            }
        }
        j.abstained += m.maybe_packets;
        j
    }
}
