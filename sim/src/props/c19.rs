//! C19 — repeated queries back off 1, 2, 4 ... s, capped at one hour.

use super::common::*;
use super::{Judged, Property, Tier};
use crate::rng::{mix, Rng};
use crate::scenario::*;
use crate::trace::*;
use crate::wire::{self, Name};

pub struct C19;

#[derive(Clone, Debug)]
struct Episode {
    start: u64,
    /// queries strictly before `end` are required; a query exactly at `end` is not judged
    end: u64,
    superseded_by_rebrowse: bool,
}

fn expected_times(ep: &Episode) -> Vec<u64> {
    let mut v = vec![];
    let mut t = ep.start;
    let mut k = 0;
    while t < ep.end {
        v.push(t);
        t += backoff_delay_s(k) * 1000;
        k += 1;
    }
    v
}

/// Episodes of one search key from the op list. `is_start`/`is_stop` classify ops.
fn episodes(scn: &Scenario, tr: &Trace, start: impl Fn(&Op) -> Option<(u32, Option<u64>)>, stop: impl Fn(&Op) -> bool) -> Vec<Episode> {
    let mut eps: Vec<Episode> = vec![];
    let mut open: Option<(u64, u32, Option<u64>)> = None; // (start, slot, deadline)
    let horizon = scn.horizon_ms + 1;
    let close = |eps: &mut Vec<Episode>, open: &mut Option<(u64, u32, Option<u64>)>, at: u64, rebrowse: bool| {
        if let Some((s, _, dl)) = open.take() {
            let end = dl.map(|d| d.min(at)).unwrap_or(at);
            eps.push(Episode { start: s, end, superseded_by_rebrowse: rebrowse });
        }
    };
    for (i, o) in scn.ops.iter().enumerate() {
        let Some(t) = op_time(tr, i) else { continue };
        let ok = api_of_op(tr, i).map(|a| a.outcome == ApiOutcome::Ok).unwrap_or(true);
        if let Some((slot, timeout)) = start(&o.op) {
            if !ok {
                continue;
            }
            close(&mut eps, &mut open, t, true);
            open = Some((t, slot, timeout.map(|x| t + x)));
        } else if stop(&o.op) || matches!(o.op, Op::Shutdown { .. }) {
            close(&mut eps, &mut open, t, false);
        } else if let Op::DropSlot { slot, .. } = &o.op {
            if open.map(|(_, s, _)| s == *slot).unwrap_or(false) {
                // receiver dropped: the next retransmission ends the search silently; queries after
                // the drop are not required (and not expected)
                close(&mut eps, &mut open, t, false);
            }
        }
    }
    close(&mut eps, &mut open, horizon, false);
    eps
}

impl Property for C19 {
    fn id(&self) -> &'static str {
        "C19"
    }
    fn count(&self, tier: Tier) -> u64 {
        match tier {
            Tier::Quick => 600,
            Tier::Thorough => 6000,
        }
    }
    fn rule_text(&self) -> &'static str {
        "seeded scenarios: 1-4 searches (service types and host names) started, stopped, re-started and re-browsed at seeded times on a 1-3 interface host over 3 h (quick) to 5 days (thorough) of virtual time; family 'silent' (strict, ms-exact schedule equality per interface and address family) and family 'responder' (peer answers; every query must be covered by the back-off schedule, a refresh mark of a delivered record, a follow-up allowance or a verify). Non-trivial = a run in which at least one search was observed for >= 5 retransmissions; distinct by schedule signature."
    }
    fn assumptions(&self) -> Vec<&'static str> {
        vec![
            "query times are observed at the socket seam (send_to) on the virtual clock",
            "in family 'responder' the refresh/follow-up allowances are upper bounds (an unconsumed allowance never raises an alarm)",
        ]
    }
    fn expected_probes(&self) -> Vec<&'static str> {
        vec!["cap-reached", "rebrowse-while-open", "hostname-search", "stop-then-restart"]
    }

    fn gen(&self, seed: u64, index: u64, tier: Tier) -> Scenario {
        let rs = mix(seed, index);
        let mut rng = Rng::new(rs, 19);
        let responder = index % 4 == 3;
        let mut s = Scenario::new("C19", if responder { "responder" } else { "silent" }, rs);
        strict(&mut s);
        let dut = random_dut(&mut rng, 10, 3, true);
        s.duts.push(dut);
        s.op(0, Op::SetIpCheck { d: 0, secs: HUGE_IP_CHECK_SECS });
        let long = match tier {
            Tier::Quick => [3 * 3600_000u64, 3 * 3600_000, 6 * 3600_000, 30_000][rng.below(4) as usize],
            Tier::Thorough => [3 * 3600_000u64, 24 * 3600_000, 5 * 24 * 3600_000, 120_000][rng.below(4) as usize],
        };
        s.horizon_ms = long;
        s.max_steps = 60_000;
        let n_search = 1 + rng.below(if responder { 2 } else { 4 });
        let mut slot = 10;
        for k in 0..n_search {
            let is_host = !responder && rng.below(3) == 0;
            let t0 = rng.below(20_000);
            if is_host {
                let host = host_name(rng.below(5));
                let timeout = if rng.below(3) == 0 { Some([1u64, 500, 1000, 2999, 3000, 3001, 7000, 100_000][rng.below(8) as usize]) } else { None };
                s.op(t0, Op::ResolveHost { d: 0, host: host.clone(), timeout, slot });
                slot += 1;
                if rng.below(3) == 0 {
                    let t1 = t0 + rng.below(long.min(20_000_000));
                    s.op(t1, Op::StopResolveHost { d: 0, host: host.clone() });
                    if rng.below(2) == 0 {
                        s.op(t1 + rng.below(100_000), Op::ResolveHost { d: 0, host, timeout: None, slot });
                        slot += 1;
                    }
                }
            } else {
                let ty = ty_name(k);
                s.op(t0, Op::Browse { d: 0, ty: ty.clone(), slot });
                let first_slot = slot;
                slot += 1;
                match rng.below(6) {
                    0 => {
                        // stop, maybe restart
                        let t1 = t0 + [0u64, 1, 999, 1000, 1001, 3000, 6999][rng.below(7) as usize] + rng.below(3) * rng.below(long / 2);
                        s.op(t1, Op::StopBrowse { d: 0, ty: ty.clone() });
                        if rng.below(2) == 0 {
                            s.op(t1 + rng.below(50_000), Op::Browse { d: 0, ty, slot });
                            slot += 1;
                        }
                    }
                    1 | 2 => {
                        // browse again while open; old receiver kept or dropped first
                        let t1 = t0 + 1 + rng.below(40_000);
                        if rng.below(2) == 0 {
                            s.op(t1.saturating_sub(1), Op::DropSlot { d: 0, slot: first_slot });
                        }
                        s.op(t1, Op::Browse { d: 0, ty, slot });
                        slot += 1;
                    }
                    _ => {}
                }
            }
        }
        if responder {
            // a responder owns an instance of the first type
            let ty = ty_name(0);
            let ttl_o = [10u32, 60, 120, 4500][rng.below(4) as usize];
            let ttl_h = [10u32, 60, 120][rng.below(3) as usize];
            let ir = instance_recs(&ty, "svc1", "hostp.local.", 8080, &["192.168.1.50"], &[], vec![0], ttl_o, ttl_h);
            let mut p = peer_dual(1, 50, 0);
            p.responder = Some(ResponderCfg { records: ir.all(), delay_ms: 20, honor_known_answers: true, additionals: true, active: true, max_answers: None, skip_first: 0, conflict_probes: 0 });
            s.peers.push(p);
            s.horizon_ms = s.horizon_ms.min(3 * 3600_000);
            // in half of the worlds an instance is advertised by its PTR alone and never becomes resolvable: exactly the
            // three follow-up queries are allowed for it
            if rng.bool() {
                let ghost = instance_recs(&ty, "ghost", "ghosthost.local.", 1, &[], &[], vec![0], 4500, 120);
                let pi = s.peers.len() - 1;
                s.op(2500 + rng.below(20_000), Op::PeerSend { p: pi, v4: true, sport: 5353, msg: announce(&[ghost.ptr.clone()]), to: Dest::Mcast });
            }
        }
        s.sort_ops();
        s
    }

    fn judge(&self, scn: &Scenario, tr: &Trace) -> Judged {
        let mut j = Judged::default();
        let d = 0usize;
        let Some(cfg) = scn.duts.first() else { return j };
        let chans = channels(&cfg.ifs, cfg.v4, cfg.v6);
        let strict_run = scn.sched.max_latency == 0 && scn.net.drop_pm == 0 && scn.sched.spurious_pm == 0;
        let silent = scn.peers.iter().all(|p| p.responder.is_none())
            && !scn.ops.iter().any(|o| matches!(o.op, Op::PeerSend { .. } | Op::PeerRaw { .. } | Op::PeerSet { .. } | Op::IfTable { .. } | Op::Verify { .. } | Op::Register { .. } | Op::EnableIf { .. } | Op::DisableIf { .. } | Op::Stall { .. } | Op::ClockJump { .. }));
        // search keys
        let mut tys: Vec<String> = vec![];
        let mut hosts: Vec<String> = vec![];
        for o in &scn.ops {
            match &o.op {
                Op::Browse { ty, .. } if !tys.contains(ty) => tys.push(ty.clone()),
                Op::ResolveHost { host, .. } if !hosts.contains(&host.to_lowercase()) => hosts.push(host.to_lowercase()),
                _ => {}
            }
        }
        let mut keys: Vec<(Name, u16, Vec<Episode>, bool)> = vec![];
        for ty in &tys {
            let eps = episodes(
                scn,
                tr,
                |o| match o {
                    Op::Browse { ty: t, slot, .. } if t == ty => Some((*slot, None)),
                    _ => None,
                },
                |o| matches!(o, Op::StopBrowse { ty: t, .. } if t == ty),
            );
            keys.push((Name::from_dotted(ty), wire::T_PTR, eps, false));
        }
        for h in &hosts {
            let eps = episodes(
                scn,
                tr,
                |o| match o {
                    Op::ResolveHost { host, slot, timeout, .. } if &host.to_lowercase() == h => Some((*slot, *timeout)),
                    _ => None,
                },
                |o| matches!(o, Op::StopResolveHost { host, .. } if &host.to_lowercase() == h),
            );
            keys.push((Name::from_dotted(h), wire::T_A, eps.clone(), true));
            keys.push((Name::from_dotted(h), wire::T_AAAA, eps, true));
            j.probe("hostname-search");
        }
        for (name, ty, eps, _is_host) in &keys {
            let rebrowse = eps.iter().any(|e| e.superseded_by_rebrowse);
            if rebrowse {
                j.probe("rebrowse-while-open");
            }
            if eps.len() > 1 && eps.iter().any(|e| !e.superseded_by_rebrowse) {
                j.probe("stop-then-restart");
            }
            let mut expected: Vec<u64> = vec![];
            let mut optional: Vec<u64> = vec![];
            for e in eps {
                let v = expected_times(e);
                if v.len() >= 6 {
                    j.nontrivial = true;
                }
                if v.len() > 13 {
                    j.probe("cap-reached");
                }
                expected.extend(v);
                optional.push(e.end);
            }
            expected.sort();
            let obs_all = queries_for(tr, d, name, *ty);
            for (ifx, v4) in &chans {
                let obs: Vec<u64> = obs_all.iter().filter(|q| q.if_index == Some(*ifx) && q.v4 == *v4).map(|q| q.t).collect();
                j.judgements += 1;
                if silent && strict_run {
                    // exact multiset equality (R1/R2), a query exactly at an episode end is not judged
                    let mut exp = expected.clone();
                    let mut extra = vec![];
                    for t in &obs {
                        if let Some(p) = exp.iter().position(|e| e == t) {
                            exp.remove(p);
                        } else if optional.contains(t) {
                        } else {
                            extra.push(*t);
                        }
                    }
                    exp.retain(|t| *t <= tr.stats.sim_ms && !optional.contains(t));
                    let rule = if rebrowse { "C19-R2" } else { "C19-R1" };
                    if let Some(t) = extra.first() {
                        j.fail(
                            rule,
                            format!(
                                "unscheduled query for {}:{} on if{} {} at t={} ms ({} extra in total; schedule allows {:?}...)",
                                name.escaped(),
                                wire_ty(*ty),
                                ifx,
                                if *v4 { "v4" } else { "v6" },
                                t,
                                extra.len(),
                                &expected[..expected.len().min(6)]
                            ),
                        );
                    }
                    if let Some(t) = exp.first() {
                        j.fail(
                            "C19-R1",
                            format!(
                                "scheduled query for {}:{} on if{} {} missing at t={} ms ({} missing; observed {:?}...)",
                                name.escaped(),
                                wire_ty(*ty),
                                ifx,
                                if *v4 { "v4" } else { "v6" },
                                t,
                                exp.len(),
                                &obs[..obs.len().min(8)]
                            ),
                        );
                    }
                } else {
                    // budget (R3): every observed query is covered by the schedule or by an allowance
                    let mut exp = expected.clone();
                    // refresh marks of delivered records answering this question
                    let mut marks: Vec<u64> = vec![];
                    for r in tr.rx.iter().filter(|r| r.d == d && r.step.is_some()) {
                        let Some(m) = &r.msg else { continue };
                        if !m.is_response() {
                            continue;
                        }
                        for rec in m.all_records() {
                            if rec.name.eq_ci(name) && (rec.ty == *ty) {
                                let t0 = r.t_read.unwrap_or(r.t_arrive);
                                let life = (rec.ttl.max(1) as u64) * 1000;
                                for pc in [80u64, 85, 90, 95] {
                                    marks.push(t0 + life * pc / 100);
                                }
                            }
                        }
                    }
                    // interface appearance and verify allowances
                    let mut free = scn.ops.iter().filter(|o| matches!(o.op, Op::IfTable { .. } | Op::EnableIf { .. })).count() as u64
                        + 2 * scn.ops.iter().filter(|o| matches!(o.op, Op::Verify { .. })).count() as u64;
                    let slack = scn.sched.max_latency + 2;
                    let mut uncovered = vec![];
                    for t in &obs {
                        if let Some(p) = exp.iter().position(|e| *t >= *e && *t <= *e + slack * 16) {
                            exp.remove(p);
                        } else if let Some(p) = marks.iter().position(|m| *t >= *m && *t <= *m + slack + 1000) {
                            marks.remove(p);
                        } else if optional.contains(t) {
                        } else if free > 0 {
                            free -= 1;
                        } else {
                            uncovered.push(*t);
                        }
                    }
                    if let Some(t) = uncovered.first() {
                        j.fail(
                            "C19-R3",
                            format!(
                                "query for {}:{} on if{} {} at t={} ms is covered neither by the back-off schedule nor by a refresh mark / follow-up / verify allowance ({} uncovered of {} observed)",
                                name.escaped(),
                                wire_ty(*ty),
                                ifx,
                                if *v4 { "v4" } else { "v6" },
                                t,
                                uncovered.len(),
                                obs.len()
                            ),
                        );
                    }
                }
                // R4: the cap
                let mut prev: Option<u64> = None;
                for e in eps {
                    let in_ep: Vec<u64> = obs.iter().copied().filter(|t| *t >= e.start && *t < e.end).collect();
                    for t in in_ep {
                        if let Some(p) = prev {
                            if t > p && t - p > 3_600_000 + scn.sched.max_latency + 2 && p >= e.start {
                                j.fail("C19-R4", format!("gap of {} ms between queries for {} at {} and {}", t - p, name.escaped(), p, t));
                            }
                        }
                        prev = Some(t);
                    }
                    prev = None;
                }
            }
        }
        // follow-up and instance questions: bounded totals (storm detection)
        if !silent {
            let mut per_q: std::collections::BTreeMap<(Name, u16), u64> = Default::default();
            for x in tr.tx.iter().filter(|x| x.d == d) {
                let Some(m) = &x.msg else { continue };
                if m.is_response() {
                    continue;
                }
                for q in &m.questions {
                    if keys.iter().any(|(n, t, _, _)| n.eq_ci(&q.name) && *t == q.ty) {
                        continue;
                    }
                    *per_q.entry((q.name.lower(), q.ty)).or_insert(0) += 1;
                }
            }
            let n_chan = chans.len().max(1) as u64;
            for ((name, ty), n) in per_q {
                // allowance: per delivered record of that name 4 refresh marks, plus 3 follow-ups per
                // ServiceFound of an instance (instance ANY, then host A/AAAA), plus verify
                let mut allow = 0u64;
                for r in tr.rx.iter().filter(|r| r.d == d && r.step.is_some()) {
                    let Some(m) = &r.msg else { continue };
                    if !m.is_response() {
                        continue;
                    }
                    for rec in m.all_records() {
                        // address questions travel together: an A refresh also asks AAAA and vice versa
                        let addr_pair = matches!(ty, wire::T_A | wire::T_AAAA) && matches!(rec.ty, wire::T_A | wire::T_AAAA);
                        if rec.name.eq_ci(&name) && (rec.ty == ty || ty == wire::T_ANY || addr_pair) {
                            allow += 4;
                        }
                    }
                }
                // follow-ups: three per ServiceFound / ServiceRemoved of that very instance (questions on an instance name),
                // three per such event of any instance for the address questions of its host
                let about = |n: &str| -> bool { !matches!(ty, wire::T_ANY | wire::T_SRV | wire::T_TXT) || Name::from_dotted(n).eq_ci(&name) };
                let founds = tr.events.iter().filter(|e| e.d == d && matches!(&e.ev, EvKind::Found(_, n) if about(n))).count() as u64;
                let removed = tr.events.iter().filter(|e| e.d == d && matches!(&e.ev, EvKind::Removed(_, n) if about(n))).count() as u64;
                allow += 3 * founds + 3 * removed;
                allow += 2 * scn.ops.iter().filter(|o| matches!(o.op, Op::Verify { .. })).count() as u64;
                j.judgements += 1;
                if n > allow * n_chan {
                    j.fail(
                        "C19-R3",
                        format!("{} queries for {}:{} but only {} allowed by refresh marks, follow-ups and verify requests", n, name.escaped(), wire_ty(ty), allow * n_chan),
                    );
                }
            }
        }
        j
    }
}
