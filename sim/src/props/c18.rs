//! C18 — each interface is its own link; nothing leaks or outlives its removal.
//!
//! "egress" worlds: a daemon on 2-3 simulated interfaces (IPv4 / IPv6 / dual, differing subnets)
//! receives enable / disable selections of every kind, registers one service with fixed addresses
//! and one with automatic addressing, and lives through interface events (address added, removed,
//! moved, interface gone, back, a new interface); peers on every segment ask at the end. Every
//! packet with service records is judged against a reference model of selections and tables.
//! "ingress" worlds: a browsing daemon learns instances on two links (one of them multi-homed);
//! then a link disappears or is disabled (by name, index or address family).

use super::common::*;
use super::txmodel::{addr_in_subnet, fullname_of};
use super::{Judged, Property, Tier};
use crate::rng::{mix, Rng};
use crate::scenario::*;
use crate::trace::*;
use crate::wire::{self, Msg, Name, Question, RData, Rec};
use serde_json::json;
use std::net::IpAddr;

pub struct C18;

const IPCHECK_S: u32 = 1;
/// a table change is noticed at the next interface check
fn check_period(scn: &Scenario) -> u64 {
    scn.ops.iter().find_map(|o| if let Op::SetIpCheck { secs, .. } = &o.op { Some(*secs as u64 * 1000) } else { None }).unwrap_or(5000) + 60
}

// ------------------------------------------------------------------------------------------------
// reference model: interface table over time, selections in call order

fn tables(scn: &Scenario, tr: &Trace, d: usize) -> Vec<(u64, Vec<IfSpec>)> {
    let mut v = vec![(0u64, scn.duts[d].ifs.clone())];
    for (oi, o) in scn.ops.iter().enumerate() {
        if let Op::IfTable { d: dd, ifs } = &o.op {
            if *dd == d {
                if let Some(t) = tr.op_times.get(oi).copied().flatten() {
                    v.push((t, ifs.clone()));
                }
            }
        }
    }
    v
}

/// tables in force at some instant of [from, to]
fn tables_in<'a>(tabs: &'a [(u64, Vec<IfSpec>)], from: u64, to: u64) -> Vec<&'a Vec<IfSpec>> {
    let mut out = vec![];
    for (k, (t, ifs)) in tabs.iter().enumerate() {
        let end = tabs.get(k + 1).map(|x| x.0).unwrap_or(u64::MAX);
        if *t <= to && end > from {
            out.push(ifs);
        }
    }
    out
}

fn table_at(tabs: &[(u64, Vec<IfSpec>)], t: u64) -> &Vec<IfSpec> {
    &tabs.iter().rev().find(|(tt, _)| *tt <= t).unwrap_or(&tabs[0]).1
}

#[derive(Clone, Debug)]
enum RK {
    All,
    V4,
    V6,
    Name(String),
    Addr(IpAddr),
    IdxV4(u32),
    IdxV6(u32),
    Prefix(String),
    Never,
}

#[derive(Clone, Debug)]
struct Sel {
    step: usize,
    kind: RK,
    enable: bool,
}

fn kind_matches(k: &RK, name: &str, idx: u32, ip: &IpAddr) -> bool {
    match k {
        RK::All => true,
        RK::V4 => ip.is_ipv4(),
        RK::V6 => ip.is_ipv6(),
        RK::Name(n) => n == name,
        RK::Addr(a) => a == ip,
        RK::IdxV4(i) => *i == idx && ip.is_ipv4(),
        RK::IdxV6(i) => *i == idx && ip.is_ipv6(),
        RK::Prefix(p) => name.starts_with(p.as_str()),
        RK::Never => false,
    }
}

fn selections(scn: &Scenario, tr: &Trace, d: usize, tabs: &[(u64, Vec<IfSpec>)]) -> Vec<Sel> {
    let mut v = vec![];
    let ds = super::model::dut_steps(tr, d);
    for a in &tr.api {
        if a.d != d || a.op == usize::MAX || a.outcome != ApiOutcome::Ok {
            continue;
        }
        let (kinds, enable) = match &scn.ops[a.op].op {
            Op::EnableIf { kinds, .. } => (kinds, true),
            Op::DisableIf { kinds, .. } => (kinds, false),
            _ => continue,
        };
        let Some(step) = super::model::consumed_in(&ds, a) else { continue };
        let t = tr.steps[step].t;
        for k in kinds {
            let kind = match k {
                IfKindSpec::All => RK::All,
                IfKindSpec::IPv4 => RK::V4,
                IfKindSpec::IPv6 => RK::V6,
                IfKindSpec::Name(n) => RK::Name(n.clone()),
                IfKindSpec::Addr(a) => match a.parse::<IpAddr>() {
                    Ok(ip) => {
                        // an address names the interface (and family) that carries it when the call is executed
                        match table_at(tabs, t).iter().find(|i| i.addrs.iter().any(|x| x.ip.parse::<IpAddr>().ok() == Some(ip))) {
                            Some(i) => {
                                if ip.is_ipv4() {
                                    RK::IdxV4(i.index)
                                } else {
                                    RK::IdxV6(i.index)
                                }
                            }
                            None => RK::Addr(ip),
                        }
                    }
                    Err(_) => RK::Name(a.clone()),
                },
                IfKindSpec::LoopbackV4 | IfKindSpec::LoopbackV6 => RK::Never,
                IfKindSpec::IndexV4(i) => RK::IdxV4(*i),
                IfKindSpec::IndexV6(i) => RK::IdxV6(*i),
                IfKindSpec::NamePrefix(p) => RK::Prefix(p.clone()),
            };
            v.push(Sel { step, kind, enable });
        }
    }
    v
}

/// last matching selection among those consumed before `step` wins; default enabled
fn enabled(sels: &[Sel], step: usize, name: &str, idx: u32, ip: &IpAddr) -> bool {
    let mut on = true;
    for s in sels.iter().filter(|s| s.step < step) {
        if kind_matches(&s.kind, name, idx, ip) {
            on = s.enable;
        }
    }
    on
}

/// A selection consumed in exactly this step matches the entry (grace: packets of that step are not judged for it).
fn touched_in_step(sels: &[Sel], step: usize, name: &str, idx: u32, ip: &IpAddr) -> bool {
    sels.iter().any(|s| s.step == step && kind_matches(&s.kind, name, idx, ip))
}

fn parse_ip(s: &str) -> Option<IpAddr> {
    s.parse().ok()
}

// ------------------------------------------------------------------------------------------------
// generators

fn if_dual(name: &str, idx: u32, v4: Option<&str>, v6: Option<&str>, seg: usize, p4: u8) -> IfSpec {
    let mut addrs = vec![];
    if let Some(a) = v4 {
        addrs.push(AddrSpec { ip: a.into(), prefix: p4 });
    }
    if let Some(a) = v6 {
        addrs.push(AddrSpec { ip: a.into(), prefix: 64 });
    }
    IfSpec { name: name.into(), index: idx, addrs, seg, up: true }
}

fn random_kind(rng: &mut Rng, ifs: &[IfSpec]) -> IfKindSpec {
    let i = &ifs[rng.below(ifs.len() as u64) as usize];
    match rng.below(9) {
        0 => IfKindSpec::All,
        1 => IfKindSpec::IPv4,
        2 => IfKindSpec::IPv6,
        3 | 4 => IfKindSpec::Name(i.name.clone()),
        5 => IfKindSpec::Addr(i.addrs[rng.below(i.addrs.len() as u64) as usize].ip.clone()),
        6 => IfKindSpec::IndexV4(i.index),
        7 => IfKindSpec::IndexV6(i.index),
        _ => IfKindSpec::NamePrefix(i.name[..2].to_string()),
    }
}

fn ptr_query(ty: &str) -> Msg {
    let mut m = Msg::query();
    m.questions.push(Question { name: Name::from_dotted(ty), ty: wire::T_PTR, class: 1 });
    m
}

fn gen_egress(rs: u64, index: u64) -> Scenario {
    let mut rng = Rng::new(rs, 0x18);
    let mut s = Scenario::new("C18", "egress", rs);
    strict(&mut s);
    s.net.self_loop = false;
    // interfaces
    let dual0 = rng.bool();
    let mut ifs = vec![if_dual("eth0", 2, Some("192.168.1.10"), if dual0 { Some("fe80::1:a") } else { None }, 0, 24)];
    match rng.below(3) {
        0 => ifs.push(if_dual("eth1", 3, Some("10.0.0.10"), None, 1, 16)),
        1 => ifs.push(if_dual("eth1", 3, Some("192.168.2.10"), Some("fe80::2:a"), 1, 24)),
        _ => ifs.push(if_dual("wlan0", 3, None, Some("fd00:2::a"), 1, 64)),
    }
    if rng.below(3) == 0 {
        ifs.push(if_dual("wlan1", 4, Some("172.16.5.10"), None, 2, 24));
    }
    // a second IPv4 address on eth0 in some worlds (for "an address vanishes, the interface stays")
    let secondary = rng.below(3) == 0;
    if secondary {
        ifs[0].addrs.insert(1, AddrSpec { ip: "192.168.1.20".into(), prefix: 24 });
    }
    s.duts.push(DutCfg { ifs: ifs.clone(), v4: true, v6: true, epoch_off: 0, yields: false });
    for i in &ifs {
        let has4 = i.addrs.iter().any(|a| a.ip.contains('.'));
        let has6 = i.addrs.iter().any(|a| a.ip.contains(':'));
        let net = i.addrs.iter().find(|a| a.ip.contains('.')).map(|a| a.ip.rsplit_once('.').unwrap().0.to_string());
        s.peers.push(PeerCfg { seg: i.seg, v4: if has4 { Some(format!("{}.77", net.unwrap())) } else { None }, v6: if has6 { Some(format!("{}77", i.addrs.iter().find(|a| a.ip.contains(':')).unwrap().ip.trim_end_matches('a'))) } else { None }, responder: None });
    }
    s.op(0, Op::SetIpCheck { d: 0, secs: IPCHECK_S });
    s.op(0, Op::Monitor { d: 0, slot: 1 });
    // a pool of interfaces that may show up later, so that selections can name them in advance
    let late = if_dual("usb0", 7, Some("192.168.7.10"), None, 0, 24);
    let mut pool = ifs.clone();
    pool.push(late.clone());
    // selections before the registrations
    let mut t = 5;
    for _ in 0..rng.below(4) {
        let kinds = vec![random_kind(&mut rng, &pool)];
        if rng.bool() {
            s.op(t, Op::DisableIf { d: 0, kinds });
        } else {
            s.op(t, Op::EnableIf { d: 0, kinds });
        }
        t += 7;
    }
    // the classic: everything off, one interface back on
    if index % 5 == 0 {
        s.op(t, Op::DisableIf { d: 0, kinds: vec![if rng.bool() { IfKindSpec::All } else { IfKindSpec::IPv4 }] });
        let i = &ifs[rng.below(ifs.len() as u64) as usize];
        s.op(t + 5, Op::EnableIf { d: 0, kinds: vec![if rng.bool() { IfKindSpec::Name(i.name.clone()) } else { IfKindSpec::Addr(i.addrs[0].ip.clone()) }] });
    }
    // services
    let ty = "_link._tcp.local.";
    let mut fixed_addrs: Vec<String> = vec![];
    for i in &ifs {
        for a in &i.addrs {
            if rng.below(3) != 0 {
                fixed_addrs.push(a.ip.clone());
            }
        }
    }
    if rng.below(4) == 0 {
        fixed_addrs.push("172.31.9.9".into());
    }
    if fixed_addrs.is_empty() {
        fixed_addrs.push(ifs[0].addrs[0].ip.clone());
    }
    let t_reg = 100 + rng.below(300);
    let fixed = SvcSpec { ty: ty.into(), instance: "fixed".into(), host: "fix.local.".into(), addrs: fixed_addrs, port: 81, txt: vec![], addr_auto: false, probe: rng.bool(), intfs: None, link_local_only: false, txt_via: None };
    let auto = SvcSpec { ty: ty.into(), instance: "auto".into(), host: "auto.local.".into(), addrs: vec![], port: 82, txt: vec![], addr_auto: true, probe: rng.bool(), intfs: None, link_local_only: false, txt_via: None };
    if rng.below(4) != 0 {
        s.op(t_reg, Op::Register { d: 0, svc: fixed });
    }
    s.op(t_reg + rng.below(200), Op::Register { d: 0, svc: auto });
    // interface events and later selections
    let mut cur = ifs.clone();
    // (the daemon's first interface check comes 5 s after its start, whatever interval is set later)
    let mut te = 5200 + rng.below(1000);
    for _ in 0..1 + rng.below(3) {
        match rng.below(8) {
            0 => {
                // an interface disappears
                if cur.len() > 1 {
                    let k = 1 + rng.below(cur.len() as u64 - 1) as usize;
                    cur.remove(k);
                    s.op(te, Op::IfTable { d: 0, ifs: cur.clone() });
                }
            }
            1 => {
                // it comes back / a new one shows up
                if !cur.iter().any(|i| i.name == late.name) {
                    cur.push(late.clone());
                    s.op(te, Op::IfTable { d: 0, ifs: cur.clone() });
                }
            }
            2 => {
                // an address vanishes while the interface stays
                if let Some(i) = cur.iter_mut().find(|i| i.addrs.len() > 1) {
                    let k = rng.below(i.addrs.len() as u64) as usize;
                    i.addrs.remove(k);
                    s.op(te, Op::IfTable { d: 0, ifs: cur.clone() });
                }
            }
            3 => {
                // a new address in the subnet of eth0
                if let Some(i) = cur.iter_mut().find(|i| i.name == "eth0") {
                    if !i.addrs.iter().any(|a| a.ip == "192.168.1.30") {
                        i.addrs.push(AddrSpec { ip: "192.168.1.30".into(), prefix: 24 });
                        s.op(te, Op::IfTable { d: 0, ifs: cur.clone() });
                    }
                }
            }
            4 => {
                // an address moves to another interface
                if cur.len() > 1 && cur[1].addrs.len() > 0 {
                    let a = cur[1].addrs.remove(0);
                    if cur[1].addrs.is_empty() {
                        cur.remove(1);
                    }
                    cur[0].addrs.push(a);
                    s.op(te, Op::IfTable { d: 0, ifs: cur.clone() });
                }
            }
            _ => {
                let kinds = vec![random_kind(&mut rng, &pool)];
                if rng.bool() {
                    s.op(te, Op::DisableIf { d: 0, kinds });
                } else {
                    s.op(te, Op::EnableIf { d: 0, kinds });
                }
            }
        }
        te += 300 + rng.below(2500);
    }
    // the peers ask on every segment and family
    let tq = te + 3500;
    for (p, peer) in s.peers.clone().iter().enumerate() {
        if peer.v4.is_some() {
            s.op(tq + p as u64 * 31, Op::PeerSend { p, v4: true, sport: 5353, msg: ptr_query(ty), to: Dest::Mcast });
        }
        if peer.v6.is_some() {
            s.op(tq + 13 + p as u64 * 31, Op::PeerSend { p, v4: false, sport: 5353, msg: ptr_query(ty), to: Dest::Mcast });
        }
    }
    if rng.bool() {
        s.op(tq + 700, Op::Unregister { d: 0, fullname: "auto._link._tcp.local.".into(), slot: 40 });
    } else {
        s.op(tq + 700, Op::Shutdown { d: 0, slot: 40 });
    }
    s.horizon_ms = tq + 2000;
    s.max_steps = 20_000;
    s.params = json!({"tq": tq});
    s.sort_ops();
    s
}

fn gen_ingress(rs: u64, index: u64) -> Scenario {
    let mut rng = Rng::new(rs, 0x81);
    let mut s = Scenario::new("C18", "ingress", rs);
    strict(&mut s);
    s.net.self_loop = false;
    let dual0 = rng.bool();
    let ifs = vec![if_dual("eth0", 2, Some("192.168.1.10"), if dual0 { Some("fe80::1:a") } else { None }, 0, 24), if_dual("eth1", 3, Some("10.0.0.10"), None, 1, 16)];
    s.duts.push(DutCfg { ifs: ifs.clone(), v4: true, v6: true, epoch_off: 0, yields: false });
    s.op(0, Op::SetIpCheck { d: 0, secs: IPCHECK_S });
    s.peers.push(PeerCfg { seg: 0, v4: Some("192.168.1.50".into()), v6: if dual0 { Some("fe80::1:32".into()) } else { None }, responder: None });
    s.peers.push(PeerCfg { seg: 1, v4: Some("10.0.0.50".into()), v6: None, responder: None });
    let ty = "_link._tcp.local.";
    s.op(50, Op::Browse { d: 0, ty: ty.into(), slot: 10 });
    // A on eth0 only, B on eth1 only, C multi-homed (same names, one address per link)
    let a = instance_recs(ty, "only0", "HostA.local.", 1, &["192.168.1.50"], if dual0 { &["fe80::1:32"] } else { &[] }, vec![0], 4500, 4500);
    let b = instance_recs(ty, "only1", "Host-B.local.", 2, &["10.0.0.50"], &[], vec![0], 4500, 4500);
    let c0 = instance_recs(ty, "both", "Living-Room-TV.local.", 3, &["192.168.1.60"], &[], vec![0], 4500, 4500);
    let c1 = instance_recs(ty, "both", "Living-Room-TV.local.", 3, &["10.0.0.60"], &[], vec![0], 4500, 4500);
    let t0 = 300 + rng.below(300);
    s.op(t0, Op::PeerSend { p: 0, v4: true, sport: 5353, msg: announce(&a.all()), to: Dest::Mcast });
    s.op(t0 + 40, Op::PeerSend { p: 1, v4: true, sport: 5353, msg: announce(&b.all()), to: Dest::Mcast });
    let c_first_on_0 = rng.bool();
    s.op(t0 + 80, Op::PeerSend { p: if c_first_on_0 { 0 } else { 1 }, v4: true, sport: 5353, msg: announce(&if c_first_on_0 { c0.all() } else { c1.all() }), to: Dest::Mcast });
    s.op(t0 + 120, Op::PeerSend { p: if c_first_on_0 { 1 } else { 0 }, v4: true, sport: 5353, msg: announce(&if c_first_on_0 { c1.all() } else { c0.all() }), to: Dest::Mcast });
    if index % 2 == 0 {
        // D "split": PTR, SRV and TXT are learned on eth0, the only address of its host on eth1 (no PRNG draw here, so that the
        // rest of the world is what it was before this instance was added)
        let dd = instance_recs(ty, "split", "Split-Box.local.", 4, &["10.0.0.70"], &[], vec![0], 4500, 4500);
        s.op(t0 + 160, Op::PeerSend { p: 0, v4: true, sport: 5353, msg: announce(&[dd.ptr.clone(), dd.srv.clone(), dd.txt.clone()]), to: Dest::Mcast });
        s.op(t0 + 200, Op::PeerSend { p: 1, v4: true, sport: 5353, msg: announce(&dd.addrs), to: Dest::Mcast });
    }
    // the event
    let te = 5200 + rng.below(2000);
    let what = ["gone-eth1", "gone-eth1", "disable-name-eth1", "disable-index-eth1", "disable-v6", "gone-v6-addr", "disable-addr-eth1"][rng.below(7) as usize];
    match what {
        "gone-eth1" => s.op(te, Op::IfTable { d: 0, ifs: vec![ifs[0].clone()] }),
        "disable-name-eth1" => s.op(te, Op::DisableIf { d: 0, kinds: vec![IfKindSpec::Name("eth1".into())] }),
        "disable-index-eth1" => s.op(te, Op::DisableIf { d: 0, kinds: vec![IfKindSpec::IndexV4(3)] }),
        "disable-addr-eth1" => s.op(te, Op::DisableIf { d: 0, kinds: vec![IfKindSpec::Addr("10.0.0.10".into())] }),
        "disable-v6" => s.op(te, Op::DisableIf { d: 0, kinds: vec![IfKindSpec::IPv6] }),
        _ => {
            let mut i0 = ifs[0].clone();
            i0.addrs.retain(|x| x.ip.contains('.'));
            s.op(te, Op::IfTable { d: 0, ifs: vec![i0, ifs[1].clone()] });
        }
    }
    // afterwards the hosts on eth0 re-announce with a changed TXT, which makes the daemon report them again
    let mut a2 = a.clone();
    a2.txt = Rec::txt(&a.inst, vec![3, b'v', b'=', b'2'], 4500, true);
    let mut c2 = c0.clone();
    c2.txt = Rec::txt(&c0.inst, vec![3, b'v', b'=', b'2'], 4500, true);
    s.op(te + 2500, Op::PeerSend { p: 0, v4: true, sport: 5353, msg: announce(&[a2.txt.clone()]), to: Dest::Mcast });
    s.op(te + 2600, Op::PeerSend { p: 0, v4: true, sport: 5353, msg: announce(&[c2.txt.clone()]), to: Dest::Mcast });
    s.horizon_ms = te + 4500;
    s.max_steps = 20_000;
    s.params = json!({"what": what, "te": te, "dual0": dual0});
    s.sort_ops();
    s
}

// ------------------------------------------------------------------------------------------------
// oracles

fn judge_egress(scn: &Scenario, tr: &Trace) -> Judged {
    let mut j = Judged::default();
    let d = 0;
    #[allow(non_snake_case)]
    let W = check_period(scn);
    let tabs = tables(scn, tr, d);
    let sels = selections(scn, tr, d, &tabs);
    if !sels.is_empty() {
        j.probe("selections-made");
    }
    if tabs.len() > 1 {
        j.probe("interface-events");
    }
    let svcs: Vec<(usize, SvcSpec, u64)> = scn.ops.iter().enumerate().filter_map(|(oi, o)| if let Op::Register { svc, .. } = &o.op { api_of_op(tr, oi).filter(|a| a.outcome == ApiOutcome::Ok).map(|a| (oi, svc.clone(), a.t)) } else { None }).collect();
    let all_table_ips = |from: u64, to: u64| -> Vec<IpAddr> { tables_in(&tabs, from, to).iter().flat_map(|t| t.iter().flat_map(|i| i.addrs.iter().filter_map(|a| parse_ip(&a.ip)))).collect() };
    // ---- E1: every packet with service records
    for x in tr.tx.iter().filter(|x| x.d == d) {
        let Some(m) = &x.msg else { continue };
        let Some(ifx) = x.if_index else { continue };
        for (_, svc, _) in &svcs {
            let full = fullname_of(svc);
            let host = Name::from_dotted(&svc.host);
            let mentions = m.all_records().any(|r| r.name.eq_ci(&full) || r.name.eq_ci(&host) || matches!(&r.rdata, RData::Ptr(t) if t.eq_ci(&full)));
            if !mentions {
                continue;
            }
            j.judgements += 1;
            j.nontrivial = true;
            let recent = tables_in(&tabs, x.t.saturating_sub(W), x.t);
            // entries of this interface and family in the recent tables
            let mut entries: Vec<(String, IpAddr, u8)> = vec![];
            for t in &recent {
                for i in t.iter().filter(|i| i.index == ifx) {
                    for a in &i.addrs {
                        if let Some(ip) = parse_ip(&a.ip) {
                            if ip.is_ipv4() == x.v4 && !entries.iter().any(|e| e.1 == ip && e.0 == i.name) {
                                entries.push((i.name.clone(), ip, a.prefix));
                            }
                        }
                    }
                }
            }
            let fam = if x.v4 { "IPv4" } else { "IPv6" };
            if entries.is_empty() {
                j.fail("C18-R1", format!("packet with records of service '{}' sent at t={} on interface {} ({}), which has had no {} address for more than {} ms (interface check every {} s)", svc.instance, x.t, ifx, fam, fam, W, IPCHECK_S));
                return j;
            }
            // Within one check period after a change of the table the daemon still works with the old one: which interface
            // a packet leaves on is then decided by the system from an address that may have moved. Not judged further.
            if tabs.iter().any(|(tt, _)| *tt > 0 && *tt <= x.t && x.t - *tt <= W) {
                j.abstained += 1;
                continue;
            }
            // enabled?
            let any_on = entries.iter().any(|(n, ip, _)| enabled(&sels, x.step, n, ifx, ip));
            let grace = entries.iter().any(|(n, ip, _)| touched_in_step(&sels, x.step, n, ifx, ip));
            if !any_on && !grace {
                let hist: Vec<String> = sels.iter().filter(|s| s.step < x.step).map(|s| format!("{}{:?}", if s.enable { "+" } else { "-" }, s.kind)).collect();
                j.fail("C18-R2", format!("packet with records of service '{}' sent at t={} on interface {} ({}) although the selections in call order {:?} leave it disabled (last match wins)", svc.instance, x.t, ifx, fam, hist));
                return j;
            }
            // the service's addresses that belong on this link
            let svc_addrs: Vec<IpAddr> = if svc.addr_auto { all_table_ips(x.t.saturating_sub(W), x.t) } else { svc.addrs.iter().filter_map(|a| parse_ip(a)).collect() };
            // (packets carry the addresses of both families that belong on the link)
            let mut entries_all: Vec<(IpAddr, u8)> = vec![];
            for t in &recent {
                for i in t.iter().filter(|i| i.index == ifx) {
                    for a in &i.addrs {
                        if let Some(ip) = parse_ip(&a.ip) {
                            entries_all.push((ip, a.prefix));
                        }
                    }
                }
            }
            let on_link = |ip: &IpAddr| entries_all.iter().any(|(e, p)| addr_in_subnet(ip, &AddrSpec { ip: e.to_string(), prefix: *p }));
            let allowed: Vec<IpAddr> = svc_addrs.iter().filter(|a| on_link(a)).copied().collect();
            if allowed.is_empty() {
                j.fail("C18-R3", format!("packet with records of service '{}' sent at t={} on interface {} ({}) although the service has no address in a subnet of that interface (service addresses {:?}, interface addresses {:?})", svc.instance, x.t, ifx, fam, svc_addrs, entries.iter().map(|e| e.1).collect::<Vec<_>>()));
                return j;
            }
            for r in m.all_records().filter(|r| r.name.eq_ci(&host) && matches!(r.ty, wire::T_A | wire::T_AAAA)) {
                let Some(ip) = rec_ip(r) else { continue };
                if !allowed.contains(&ip) {
                    let why = if !svc_addrs.contains(&ip) { if svc.addr_auto { "is not (any more) an address of this host" } else { "is not an address of the service" } } else { "is not in a subnet of that interface" };
                    j.fail("C18-R4", format!("service '{}': address record {} (ttl {}) sent at t={} on interface {} {}: allowed there {:?}", svc.instance, ip, r.ttl, x.t, ifx, why, allowed));
                    return j;
                }
            }
        }
    }
    // ---- E2: the service with automatic addressing follows the table and the selections
    let Some((_, auto, t_auto)) = svcs.iter().find(|s| s.1.addr_auto) else { return j };
    let host = Name::from_dotted(&auto.host);
    for (oi, o) in scn.ops.iter().enumerate() {
        let Op::PeerSend { p, v4, msg, .. } = &o.op else { continue };
        if !msg.is_query() {
            continue;
        }
        let Some(t_op) = tr.op_times.get(oi).copied().flatten() else { continue };
        let seg = scn.peers[*p].seg;
        // stable period before the question
        let from = t_op.saturating_sub(2600 + W);
        if *t_auto + 2600 + W > t_op {
            continue;
        }
        let recent = tables_in(&tabs, from, t_op);
        if recent.len() != 1 {
            j.abstained += 1;
            continue; // the table changed shortly before: not judged
        }
        let ds = super::model::dut_steps(tr, d);
        let last_sel_t = sels.iter().map(|s| tr.steps[s.step].t).max().unwrap_or(0);
        if last_sel_t + 2600 > t_op {
            j.abstained += 1;
            continue;
        }
        let _ = ds;
        for i in recent[0].iter().filter(|i| i.seg == seg) {
            let want: Vec<IpAddr> = i.addrs.iter().filter_map(|a| parse_ip(&a.ip)).filter(|ip| ip.is_ipv4() == *v4).collect();
            if want.is_empty() {
                continue;
            }
            let on = want.iter().any(|ip| enabled(&sels, usize::MAX, &i.name, i.index, ip));
            let rx = tr.rx.iter().find(|r| r.d == d && r.t_sent == t_op && r.if_index == i.index && r.v4 == *v4 && matches!(r.src, Src::Peer(pp) if pp == *p));
            j.judgements += 1;
            if !on {
                j.probe("question-on-disabled-channel");
                if let Some(r) = rx {
                    if let Some(st) = r.step {
                        if tr.tx.iter().any(|x| x.d == d && x.step == st && x.if_index == Some(i.index) && x.v4 == *v4 && x.msg.as_ref().map(|m| m.is_response()).unwrap_or(false)) {
                            j.fail("C18-R2", format!("the question on disabled interface {} ({}) at t={} was answered", i.name, if *v4 { "IPv4" } else { "IPv6" }, t_op));
                            return j;
                        }
                    }
                }
                continue;
            }
            j.probe("question-on-enabled-channel");
            // enabled entries only
            let want_on: Vec<IpAddr> = want.iter().filter(|ip| enabled(&sels, usize::MAX, &i.name, i.index, ip)).copied().collect();
            let Some(rx) = rx.filter(|r| r.step.is_some()) else {
                j.fail("C18-R5", format!("interface {} ({}) is present and enabled (selections in call order, last match wins) since t<={} but the daemon did not receive the question sent there at t={}: it has not joined the group on it", i.name, if *v4 { "IPv4" } else { "IPv6" }, from, t_op));
                return j;
            };
            let st = rx.step.unwrap();
            let resp: Vec<&Tx> = tr.tx.iter().filter(|x| x.d == d && x.step == st && x.if_index == Some(i.index) && x.v4 == *v4 && x.msg.as_ref().map(|m| m.is_response()).unwrap_or(false)).collect();
            let got: Vec<IpAddr> = resp.iter().flat_map(|x| x.msg.as_ref().unwrap().all_records().filter(|r| r.name.eq_ci(&host)).filter_map(rec_ip).collect::<Vec<_>>()).collect();
            let mut want_sorted = want_on.clone();
            want_sorted.sort();
            want_sorted.dedup();
            let mut got_sorted = got.clone();
            got_sorted.sort();
            got_sorted.dedup();
            // (other addresses of the host that fall into a subnet of this interface - link-local IPv6 addresses of
            // other interfaces - may come along; R4 bounds them)
            if !want_sorted.iter().all(|w| got_sorted.contains(w)) {
                j.fail("C18-R5", format!("service with automatic addressing, question on {} ({}) at t={}: answered with addresses {:?}, the interface has had {:?} (enabled) since t<={}; selections {:?}", i.name, if *v4 { "IPv4" } else { "IPv6" }, t_op, got_sorted, want_sorted, from, sels.iter().map(|s| format!("{}{:?}", if s.enable { "+" } else { "-" }, s.kind)).collect::<Vec<_>>()));
                return j;
            }
        }
    }
    j
}

fn judge_ingress(scn: &Scenario, tr: &Trace) -> Judged {
    let mut j = Judged::default();
    let d = 0;
    let what = scn.params.get("what").and_then(|v| v.as_str()).unwrap_or("");
    let Some((oi, _)) = scn.ops.iter().enumerate().find(|(_, o)| matches!(o.op, Op::IfTable { .. } | Op::DisableIf { .. })) else { return j };
    let Some(te) = tr.op_times.get(oi).copied().flatten() else { return j };
    let table_event = what.starts_with("gone");
    // the instant by which the daemon has processed the event
    let done = if table_event { te + check_period(scn) } else { te + 5 };
    if done + 5 > tr.stats.sim_ms {
        j.abstained += 1;
        return j;
    }
    j.probe(what);
    j.nontrivial = true;
    let dead_if: Option<u32> = if what.contains("eth1") { Some(3) } else { None };
    // (an IPv6 address that merely vanishes from an interface that stays is neither a disappearing interface nor a
    // disabled family: the statement demands nothing for records learned there; that world only has to survive)
    let dead_v6 = what == "disable-v6";
    let evs: Vec<&Ev> = tr.events.iter().filter(|e| e.d == d && e.slot == 10).collect();
    // the instance was known through the link that dies (an address tagged with it was reported)
    let resolved_before = |name: &str| evs.iter().any(|e| e.t < te && matches!(&e.ev, EvKind::Resolved(r) if r.fullname.starts_with(name) && r.addrs.iter().any(|a| a.intfs.iter().any(|(_, i)| *i == 3))));
    // I3: nothing learned on the dead link / family is reported afterwards
    for e in evs.iter().filter(|e| e.t > done) {
        let EvKind::Resolved(r) = &e.ev else { continue };
        j.judgements += 1;
        for a in &r.addrs {
            for (n, ifx) in &a.intfs {
                if Some(*ifx) == dead_if && (a.ip.is_ipv4() || !what.contains("index")) {
                    j.fail("C18-R7", format!("{}: ServiceResolved({}) at t={} still lists {} learned on {}({}), which {} at t={}", what, r.fullname, e.t, a.ip, n, ifx, if table_event { "disappeared" } else { "was disabled" }, te));
                    return j;
                }
                if dead_v6 && a.ip.is_ipv6() {
                    j.fail("C18-R7", format!("{}: ServiceResolved({}) at t={} still lists the IPv6 address {} learned on {}({}) although IPv6 there {} at t={}", what, r.fullname, e.t, a.ip, n, ifx, if table_event { "has no address any more" } else { "was disabled" }, te));
                    return j;
                }
            }
        }
    }
    if what == "gone-eth1" {
        // I1: the instance learned only there lost its PTR: removed
        if resolved_before("only1") {
            j.judgements += 1;
            if !evs.iter().any(|e| e.t >= te && e.t <= done && matches!(&e.ev, EvKind::Removed(_, n) if n.starts_with("only1"))) {
                j.fail("C18-R6", format!("interface eth1 disappeared at t={}: the instance learned only there (only1) was not reported removed by t={}; events since: {:?}", te, done, evs.iter().filter(|e| e.t >= te).map(|e| format!("{}:{:?}", e.t, e.ev)).take(4).collect::<Vec<_>>()));
                return j;
            }
        }
        // I2: the multi-homed instance is resolved again with what is left, or - if its PTR was learned there - removed
        if resolved_before("both") {
            j.judgements += 1;
            let again = evs.iter().any(|e| e.t >= te && e.t <= done && match &e.ev {
                EvKind::Resolved(r) => r.fullname.starts_with("both") && r.addrs.iter().all(|a| a.intfs.iter().all(|(_, i)| *i == 2)),
                EvKind::Removed(_, n) => n.starts_with("both"),
                _ => false,
            });
            if !again {
                j.fail("C18-R6", format!("interface eth1 disappeared at t={}: the multi-homed instance (both) was neither resolved again with the addresses that are left nor reported removed by t={}; events since: {:?}", te, done, evs.iter().filter(|e| e.t >= te).map(|e| format!("{}:{:?}", e.t, e.ev)).take(4).collect::<Vec<_>>()));
                return j;
            }
        }
        // I2b: the instance whose only address was learned there (its PTR, SRV and TXT on the link that stays) has nothing left
        // to be resolved with: reported removed (or, should an address be left, resolved again with it)
        if resolved_before("split") {
            j.judgements += 1;
            j.probe("split-instance-judged");
            let again = evs.iter().any(|e| e.t >= te && e.t <= done && match &e.ev {
                EvKind::Resolved(r) => r.fullname.starts_with("split") && r.addrs.iter().all(|a| a.intfs.iter().all(|(_, i)| *i == 2)),
                EvKind::Removed(_, n) => n.starts_with("split"),
                _ => false,
            });
            if !again {
                j.fail("C18-R6", format!("interface eth1 disappeared at t={}: the instance whose only address was learned there (split) was neither reported removed nor resolved again by t={}; events since: {:?}", te, done, evs.iter().filter(|e| e.t >= te).map(|e| format!("{}:{:?}", e.t, e.ev)).take(4).collect::<Vec<_>>()));
                return j;
            }
        }
        // the instance on the other link is untouched
        if evs.iter().any(|e| e.t >= te && e.t <= done && matches!(&e.ev, EvKind::Removed(_, n) if n.starts_with("only0"))) {
            j.fail("C18-R6", format!("interface eth1 disappeared at t={} and the instance learned on eth0 (only0) was reported removed", te));
        }
    }
    j
}

impl Property for C18 {
    fn id(&self) -> &'static str {
        "C18"
    }
    fn count(&self, tier: Tier) -> u64 {
        match tier {
            Tier::Quick => 1500,
            Tier::Thorough => 60_000,
        }
    }
    fn rule_text(&self) -> &'static str {
        "two families. 'egress' (2 of 3): a daemon on 2-3 simulated interfaces (IPv4 / IPv6 / dual, differing subnets, sometimes two IPv4 addresses on one interface; interface check every second) receives 0-4 enable / disable selections of every kind (All, IPv4, IPv6, Name, Addr, IndexV4, IndexV6, predicate) before and after registering a service with fixed addresses (a subset of the host's addresses plus sometimes a foreign one) and a service with automatic addressing; then 1-3 interface events (interface gone, new interface, address vanishes while the interface stays, new address, address moves to another interface) or further selections; peers on every segment and family ask a PTR question at the end, then unregister / shutdown. Reference model: the table in force and the selections in call order, last match winning, an Addr selection naming the interface and family that carried the address when the call ran. R1 no packet with service records on an interface that has had no address of that family for longer than one check period; R2 none on a channel the selections leave disabled; R3 none where the service has no address in a subnet of the interface; R4 only addresses of the service that are in a subnet of that interface (automatic addressing: only addresses the host still has); R5 the service with automatic addressing is reachable on exactly the enabled, present channels and answers with exactly the interface's current addresses of that family. 'ingress' (1 of 3): a browsing daemon learns one instance per link and a multi-homed one on two links, then eth1 disappears, or is disabled by name / index / address, or IPv6 is disabled / loses its address; the hosts on the other link then re-announce. R6 after a disappearance the instance learned only there is reported removed within one check period, the multi-homed one is resolved again with what is left (or removed), the other link's instance is untouched; R7 no later event lists an address learned on the dead link / family. Non-trivial = a packet with service records judged (egress) / an event processed (ingress); distinct by schedule signature."
    }
    fn assumptions(&self) -> Vec<&'static str> {
        vec![
            "a table change becomes binding one check period (1 s + 60 ms) after it happened; a selection binds from the step after the one that consumed it",
            "completeness (R5) is demanded for the service with automatic addressing only: the statement says 'only on' for fixed addresses",
            "link-local IPv6 addresses of different interfaces share the subnet fe80::/64, so the subnet rule allows them on every link; the model follows the rule as stated",
        ]
    }
    fn expected_probes(&self) -> Vec<&'static str> {
        vec!["selections-made", "interface-events", "question-on-enabled-channel", "question-on-disabled-channel", "gone-eth1", "disable-name-eth1", "disable-index-eth1", "disable-addr-eth1", "disable-v6", "gone-v6-addr", "split-instance-judged"]
    }
    fn gen(&self, seed: u64, index: u64, _tier: Tier) -> Scenario {
        let rs = mix(seed, index);
        if index % 3 == 2 {
            gen_ingress(rs, index / 3)
        } else {
            gen_egress(rs, index)
        }
    }
    fn judge(&self, scn: &Scenario, tr: &Trace) -> Judged {
        let mut j = if scn.family == "ingress" { judge_ingress(scn, tr) } else { judge_egress(scn, tr) };
        // runs in which a send failed because its source address had just vanished are tagged (known finding: a service
        // whose announcement fails that way stays silent on the interface)
        if tr.stats.seam_faults[3] > 0 {
            for v in j.violations.iter_mut().filter(|v| v.rule == "C18-R5") {
                v.detail = format!("[a send failed on an address that had just vanished] {}", v.detail);
            }
        }
        j
    }
}
