//! Property plumbing: every property supplies a scenario generator and an oracle
//! over (scenario, trace). Oracles read only the scenario file and the recorded
//! history, so a shrunk or hand-edited scenario is judged by the same rules.

use crate::scenario::Scenario;
use crate::trace::Trace;
use std::collections::BTreeMap;

pub mod browse;
pub mod c01;
pub mod c02;
pub mod c08;
pub mod c10;
pub mod c11;
pub mod c12;
pub mod c13;
pub mod c14;
pub mod c15;
pub mod c16;
pub mod c17;
pub mod c18;
pub mod c19;
pub mod c20;
pub mod common;
pub mod mallory;
pub mod model;
pub mod respond;
pub mod txmodel;

#[derive(Clone, Copy, Debug, PartialEq, Eq)]
pub enum Tier {
    Quick,
    Thorough,
}

#[derive(Clone, Debug)]
pub struct Violation {
    /// rule id, e.g. "C19-R1"
    pub rule: String,
    /// human-readable: what was expected, what was seen, when
    pub detail: String,
}

#[derive(Default, Debug)]
pub struct Judged {
    pub violations: Vec<Violation>,
    /// the oracle made at least one non-vacuous judgement (rule stated per property)
    pub nontrivial: bool,
    /// number of individual rule evaluations
    pub judgements: u64,
    /// reach probes: named conditions that were hit in this run
    pub probes: BTreeMap<String, u64>,
    /// times the oracle abstained because a fault removed a precondition
    pub abstained: u64,
}

impl Judged {
    pub fn fail(&mut self, rule: &str, detail: String) {
        self.violations.push(Violation { rule: rule.to_string(), detail });
    }
    pub fn probe(&mut self, name: &str) {
        *self.probes.entry(name.to_string()).or_insert(0) += 1;
    }
    pub fn probe_n(&mut self, name: &str, n: u64) {
        if n > 0 {
            *self.probes.entry(name.to_string()).or_insert(0) += n;
        }
    }
}

pub trait Property: Sync + Send {
    fn id(&self) -> &'static str;
    /// "exploration" | "fault_enumeration"
    fn level(&self) -> &'static str {
        "exploration"
    }
    /// number of scenarios in a batch of this tier
    fn count(&self, tier: Tier) -> u64;
    /// the index-th scenario of the batch (a pure function of seed, index, tier)
    fn gen(&self, seed: u64, index: u64, tier: Tier) -> Scenario;
    fn judge(&self, scn: &Scenario, tr: &Trace) -> Judged;
    /// how cases are generated and what makes one non-trivial
    fn rule_text(&self) -> &'static str;
    fn assumptions(&self) -> Vec<&'static str> {
        vec![]
    }
    /// probes that must be non-zero in a thorough batch (reported, fails only the self-test)
    fn expected_probes(&self) -> Vec<&'static str> {
        vec![]
    }
    /// dedicated scenarios that demonstrate known findings: (finding id, scenario)
    fn known_finding_scenarios(&self, _seed: u64) -> Vec<(String, Scenario)> {
        vec![]
    }
    /// true if the oracle has rules that do not need the daemon to be alive (it then guards the others itself)
    fn judges_after_death(&self) -> bool {
        false
    }
    /// true if a complete enumeration is part of the batch
    fn exhaustive_part(&self, _tier: Tier) -> Option<&'static str> {
        None
    }
}

pub fn all() -> Vec<Box<dyn Property>> {
    vec![Box::new(c01::C01), Box::new(c02::C02), Box::new(browse::C03), Box::new(browse::C04), Box::new(browse::C05), Box::new(respond::C06), Box::new(respond::C07), Box::new(c08::C08), Box::new(respond::C09), Box::new(c10::C10), Box::new(c11::C11), Box::new(c12::C12), Box::new(c13::C13), Box::new(c14::C14), Box::new(c15::C15), Box::new(c16::C16), Box::new(c17::C17), Box::new(c18::C18), Box::new(c19::C19), Box::new(c20::C20)]
}

pub fn by_id(id: &str) -> Option<Box<dyn Property>> {
    all().into_iter().find(|p| p.id() == id)
}
