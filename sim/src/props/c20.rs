//! C20 — state stays bounded: expired data is forgotten, unrequested data not kept.
//!
//! One daemon with a few searches (and sometimes a registration) lives through a stream of traffic
//! nobody asked for; its own metrics are sampled along the way and after everything has been
//! stopped and every TTL has passed.

use super::common::*;
use super::{Judged, Property, Tier};
use crate::rng::{mix, Rng};
use crate::scenario::*;
use crate::trace::*;
use crate::wire::{self, Msg, Name, RData, Rec};
use serde_json::json;
use std::collections::BTreeMap;

pub struct C20;

const WANTED_TY: &str = "_want._tcp.local.";
const WANTED_HOST: &str = "wanthost.local.";

fn noise_packet(rng: &mut Rng, kind: u64, k: u64) -> Msg {
    let host = Name::from_dotted(&format!("noise-{k}.local."));
    let foreign_ty = Name::from_dotted(&format!("_other{}._udp.local.", k % 7));
    let mk = |ty: &Name, label: &str| {
        let mut l = vec![label.as_bytes().to_vec()];
        l.extend(ty.0.iter().cloned());
        Name(l)
    };
    let inst = mk(&foreign_ty, &format!("noise {k}"));
    let ttl = [10u32, 60, 120, 4500][rng.below(4) as usize];
    let a = Rec::a(&host, [192, 168, 1, (k % 200) as u8 + 20], ttl, true);
    let mut m = Msg::response();
    match kind {
        // a complete announcement of a type nobody browses
        0 => {
            m.answers.push(Rec::ptr(&foreign_ty, &inst, ttl));
            m.answers.push(Rec::srv(&inst, &host, 1000 + (k % 1000) as u16, ttl, true));
            m.answers.push(Rec::txt(&inst, vec![2, b'k', b'='], ttl, true));
            m.answers.push(a);
        }
        // ... with the other records as additionals
        1 => {
            m.answers.push(Rec::ptr(&foreign_ty, &inst, ttl));
            m.additionals.push(Rec::srv(&inst, &host, 80, ttl, true));
            m.additionals.push(Rec::txt(&inst, vec![0], ttl, true));
            m.additionals.push(a);
        }
        // SRV / TXT / address without any PTR
        2 => {
            m.answers.push(Rec::srv(&inst, &host, 80, ttl, true));
            m.answers.push(Rec::txt(&inst, vec![0], ttl, true));
            m.answers.push(a);
        }
        // a bare address, a bare NSEC
        3 => {
            m.answers.push(a);
            let mut n = Rec::a(&host, [0, 0, 0, 0], ttl, true);
            n.ty = wire::T_NSEC;
            n.rdata = RData::Nsec { next: host.clone(), bitmap: vec![0, 4, 0x40, 0, 0, 8] };
            m.answers.push(n);
        }
        // subtype PTRs of types nobody browses
        4 => {
            let sub = Name::from_dotted(&format!("_s{}._sub._other{}._udp.local.", k % 50, k % 7));
            m.answers.push(Rec::ptr(&sub, &inst, ttl));
            m.answers.push(Rec::ptr(&foreign_ty, &inst, ttl));
        }
        // goodbyes for records that were never cached
        5 => {
            m.answers.push(Rec::ptr(&foreign_ty, &inst, 0));
            m.answers.push(Rec::srv(&inst, &host, 80, 0, true));
            m.answers.push(Rec::a(&host, [192, 168, 1, 9], 0, true));
        }
        // other hosts' queries and probes
        6 => {
            let mut q = Msg::query();
            q.questions.push(wire::Question { name: inst.clone(), ty: wire::T_ANY, class: 1 });
            q.authorities.push(Rec::srv(&inst, &host, 80, 120, true));
            return q;
        }
        // the meta type and a foreign type in one packet
        _ => {
            m.answers.push(Rec::ptr(&Name::from_dotted("_services._dns-sd._udp.local."), &foreign_ty, ttl));
            m.answers.push(Rec::ptr(&foreign_ty, &inst, ttl));
            m.additionals.push(Rec::txt(&inst, vec![0], ttl, true));
        }
    }
    m
}

impl Property for C20 {
    fn id(&self) -> &'static str {
        "C20"
    }
    fn count(&self, tier: Tier) -> u64 {
        match tier {
            Tier::Quick => 400,
            Tier::Thorough => 12_000,
        }
    }
    fn rule_text(&self) -> &'static str {
        "seeded worlds: one daemon (multicast loop-back on or off) browses one or two types and resolves a host name (sometimes registers a service too); a peer owns 1-4 wanted instances (TTL 10-120 s; some never resolve because SRV or address never comes) and re-announces / withdraws them repeatedly; a second peer sends 300-3000 packets of traffic nobody asked for (complete announcements of other types with records as answers or additionals, SRV / TXT / address / NSEC without PTR, subtype PTRs, goodbyes for records never cached, other hosts' probes, meta-type answers, all under distinct names); the daemon's get_metrics is sampled after a third, two thirds and all of the stream, then every search is stopped (in some worlds while follow-up queries are pending), the stream goes on for a while, and after the longest TTL has passed the metrics are read a last time. Rules: R1 at every sample each cached-record count (ptr, srv, txt, addr, nsec, subtype) is at most the number of wanted records of that kind delivered so far (+2), however much other traffic has passed; R2 the timer count is at most 12 per wanted record delivered and open search or registration (+16); R3 between the second and the third sample (same searches, twice the traffic) no count grows by more than the wanted records delivered in between; R4 in the last sample, taken after all searches were stopped and every TTL has passed, every cached count is 0 and at most one timer (the interface check) is pending (registrations keep theirs); R5 no query leaves the daemon during the final quiet period. Non-trivial = a world whose final sample was read after >= 300 unrequested packets; distinct by schedule signature."
    }
    fn assumptions(&self) -> Vec<&'static str> {
        vec![
            "the bound is the statement's 'proportional to what active searches need': wanted = records whose owner is a browsed type, an instance of it, the host of such an instance, or a host name under resolution",
            "queued retransmissions are not in the metrics; they are observed through the timer count and through queries on the wire after the stop",
        ]
    }
    fn expected_probes(&self) -> Vec<&'static str> {
        vec!["final-sample-clean", "stopped-with-follow-ups-pending", "unrequested-packets-1000+", "wanted-instance-never-resolves", "repeated-announcements"]
    }

    fn gen(&self, seed: u64, index: u64, tier: Tier) -> Scenario {
        let rs = mix(seed, index);
        let mut rng = Rng::new(rs, 0x20);
        let mut s = Scenario::new("C20", if index % 4 == 3 { "with-registration" } else { "searches" }, rs);
        strict(&mut s);
        s.net.self_loop = rng.bool();
        s.duts.push(dut_v4(1, 10, 0));
        s.op(0, Op::SetIpCheck { d: 0, secs: HUGE_IP_CHECK_SECS });
        s.peers.push(peer_v4(1, 50, 0)); // owner of the wanted instances
        s.peers.push(peer_v4(1, 66, 0)); // the noise
        s.op(40, Op::Browse { d: 0, ty: WANTED_TY.into(), slot: 10 });
        // a third of the worlds also browse a subtype of the wanted type; the wanted instances then carry its PTR too
        let sub_browse = index % 3 == 1;
        if sub_browse {
            s.op(50, Op::Browse { d: 0, ty: format!("_sub1._sub.{WANTED_TY}"), slot: 13 });
        }
        let second = rng.bool();
        if second {
            s.op(60, Op::Browse { d: 0, ty: "_also._udp.local.".into(), slot: 11 });
        }
        let resolve_host = rng.bool();
        // (the caller spells the host name with capital letters in half of the worlds)
        let host_spelling = if rng.bool() { "WantHost.local." } else { WANTED_HOST };
        if resolve_host {
            s.op(80, Op::ResolveHost { d: 0, host: host_spelling.into(), timeout: None, slot: 12 });
        }
        if index % 4 == 3 {
            s.op(100, Op::Register { d: 0, svc: SvcSpec { ty: "_mine._tcp.local.".into(), instance: "mine".into(), host: "minehost.local.".into(), addrs: vec!["192.168.1.10".into()], port: 9, txt: vec![], addr_auto: false, probe: true, intfs: None, link_local_only: false, txt_via: None } });
        }
        // wanted instances
        let n_w = 1 + rng.below(4);
        let max_ttl = [10u32, 30, 60, 120][rng.below(4) as usize];
        let mut wanted: Vec<Vec<Rec>> = vec![];
        let mut never = false;
        for k in 0..n_w {
            let ir = instance_recs(WANTED_TY, &format!("want {k}"), WANTED_HOST, 100 + k as u16, &["192.168.1.50"], &[], vec![0], max_ttl, max_ttl);
            let mut ir = ir;
            if sub_browse {
                // the subtype PTR travels with the other records
                let subn = Name::from_dotted(&format!("_sub1._sub.{WANTED_TY}"));
                ir.addrs.push(Rec::ptr(&subn, &ir.inst, max_ttl));
            }
            let recs = match rng.below(4) {
                0 => {
                    never = true;
                    vec![ir.ptr.clone()] // never resolves
                }
                1 => {
                    never = true;
                    vec![ir.ptr.clone(), ir.srv.clone(), ir.txt.clone()] // no address
                }
                _ => ir.all(),
            };
            wanted.push(recs);
        }
        // the stream
        let n_noise = match tier {
            Tier::Quick => [300u64, 600, 1200][rng.below(3) as usize],
            Tier::Thorough => [300u64, 1000, 3000][rng.below(3) as usize],
        };
        let gap = [3u64, 11, 29][rng.below(3) as usize];
        let t_start = 300;
        // half of the worlds stream only packets that are led by a PTR (of a type nobody browses), the other half also
        // records without any PTR
        let bare = index % 2 == 1;
        let pool: Vec<u64> = if bare { vec![0, 1, 2, 3, 4, 5, 6, 7] } else { vec![0, 1, 4, 5, 6, 7] };
        let kinds: Vec<u64> = pool.iter().copied().filter(|k| rng.below(3) != 0 || (bare && (*k == 2 || *k == 3))).collect();
        let kinds = if kinds.is_empty() { vec![0, 1] } else { kinds };
        let mut t = t_start;
        let third = n_noise / 3;
        let repeats = rng.below(3) == 0;
        for k in 0..n_noise {
            let kind = kinds[rng.below(kinds.len() as u64) as usize];
            s.op(t, Op::PeerSend { p: 1, v4: true, sport: 5353, msg: noise_packet(&mut rng, kind, k), to: Dest::Mcast });
            // wanted traffic in between
            if k % (third.max(1) / 3 + 1) == 1 || (repeats && k % 5 == 0) {
                let w = &wanted[rng.below(wanted.len() as u64) as usize];
                let msg = if rng.below(6) == 0 { goodbye(w) } else { announce(w) };
                s.op(t + 1, Op::PeerSend { p: 0, v4: true, sport: 5353, msg, to: Dest::Mcast });
            }
            if k + 1 == third {
                s.op(t + 2, Op::Metrics { d: 0, slot: 21 });
            }
            if k + 1 == 2 * third {
                s.op(t + 2, Op::Metrics { d: 0, slot: 22 });
            }
            if k + 1 == 3 * third {
                s.op(t + 2, Op::Metrics { d: 0, slot: 23 });
            }
            t += gap;
        }
        // stop everything; in some worlds right after a wanted PTR without SRV arrived (follow-up queries pending)
        let pending = rng.below(3) == 0;
        if pending {
            let ir = instance_recs(WANTED_TY, "late one", WANTED_HOST, 7, &[], &[], vec![0], max_ttl, max_ttl);
            s.op(t + 10, Op::PeerSend { p: 0, v4: true, sport: 5353, msg: announce(&[ir.ptr.clone()]), to: Dest::Mcast });
        }
        let t_stop = t + if pending { 10 + [5u64, 300, 700, 1200][rng.below(4) as usize] } else { 500 };
        s.op(t_stop, Op::StopBrowse { d: 0, ty: WANTED_TY.into() });
        if sub_browse {
            s.op(t_stop, Op::StopBrowse { d: 0, ty: format!("_sub1._sub.{WANTED_TY}") });
        }
        if second {
            s.op(t_stop + 1, Op::StopBrowse { d: 0, ty: "_also._udp.local.".into() });
        }
        if resolve_host {
            s.op(t_stop + 2, Op::StopResolveHost { d: 0, host: host_spelling.into() });
        }
        // the stream goes on for a while after the stop
        let mut t2 = t_stop + 50;
        for k in 0..60 {
            let kind = kinds[rng.below(kinds.len() as u64) as usize];
            s.op(t2, Op::PeerSend { p: 1, v4: true, sport: 5353, msg: noise_packet(&mut rng, kind, n_noise + k), to: Dest::Mcast });
            if k % 20 == 7 {
                s.op(t2 + 1, Op::PeerSend { p: 0, v4: true, sport: 5353, msg: announce(&wanted[0]), to: Dest::Mcast });
            }
            t2 += gap;
        }
        // every TTL passes (the stream used TTLs up to 4500 s)
        let t_quiet = t2 + 4500 * 1000 + 5000;
        s.op(t_quiet, Op::Metrics { d: 0, slot: 24 });
        s.horizon_ms = t_quiet + 10_000;
        s.max_steps = 60_000;
        s.params = json!({"n_noise": n_noise, "t_stop": t_stop, "t_quiet": t_quiet, "pending": pending, "never": never, "repeats": repeats, "t_last_packet": t2, "bare": bare});
        s.sort_ops();
        s
    }

    fn judge(&self, scn: &Scenario, tr: &Trace) -> Judged {
        let mut j = self.judge_inner(scn, tr);
        // worlds whose stream has records without any PTR are tagged: the daemon takes such packets as meant for it
        let bare = scn.ops.iter().any(|o| matches!(&o.op, Op::PeerSend { p: 1, msg, .. } if msg.is_response() && !msg.answers.is_empty() && !msg.answers.iter().any(|r| r.ty == wire::T_PTR)));
        if bare {
            for v in j.violations.iter_mut() {
                v.detail = format!("[the stream has responses without any PTR answer] {}", v.detail);
            }
        }
        j
    }
}

impl C20 {
    fn judge_inner(&self, scn: &Scenario, tr: &Trace) -> Judged {
        let mut j = Judged::default();
        let d = 0;
        let p = &scn.params;
        let n_noise = p.get("n_noise").and_then(|v| v.as_u64()).unwrap_or(0);
        let t_stop = p.get("t_stop").and_then(|v| v.as_u64()).unwrap_or(u64::MAX);
        let registered = scn.ops.iter().any(|o| matches!(o.op, Op::Register { .. }));
        let searches = scn.ops.iter().filter(|o| matches!(o.op, Op::Browse { .. } | Op::ResolveHost { .. })).count() as i64;
        if p.get("pending").and_then(|v| v.as_bool()) == Some(true) {
            j.probe("stopped-with-follow-ups-pending");
        }
        if p.get("never").and_then(|v| v.as_bool()) == Some(true) {
            j.probe("wanted-instance-never-resolves");
        }
        if p.get("repeats").and_then(|v| v.as_bool()) == Some(true) {
            j.probe("repeated-announcements");
        }
        if n_noise >= 1000 {
            j.probe("unrequested-packets-1000+");
        }
        // wanted records delivered up to a time (distinct, by kind)
        let wanted_ty = Name::from_dotted(WANTED_TY);
        let wanted_host = Name::from_dotted(WANTED_HOST);
        let wanted_until = |t: u64| -> BTreeMap<&'static str, i64> {
            let mut seen: Vec<Rec> = vec![];
            for r in tr.rx.iter().filter(|r| r.d == d && r.step.is_some() && r.t_read.unwrap_or(u64::MAX) <= t && matches!(r.src, Src::Peer(0))) {
                let Some(m) = &r.msg else { continue };
                if !m.is_response() {
                    continue;
                }
                for rec in m.all_records() {
                    if !seen.iter().any(|s| s.same_data(rec)) {
                        seen.push(rec.clone());
                    }
                }
            }
            let mut c: BTreeMap<&'static str, i64> = BTreeMap::new();
            for r in &seen {
                let k = match r.ty {
                    wire::T_PTR => "cached-ptr",
                    wire::T_SRV => "cached-srv",
                    wire::T_TXT => "cached-txt",
                    wire::T_A | wire::T_AAAA => "cached-addr",
                    wire::T_NSEC => "cached-nsec",
                    _ => continue,
                };
                *c.entry(k).or_insert(0) += 1;
                // a subtype PTR also leaves an instance -> subtype entry
                if r.ty == wire::T_PTR && r.name.0.iter().any(|l| l.eq_ignore_ascii_case(b"_sub")) {
                    *c.entry("cached-subtype").or_insert(0) += 1;
                }
            }
            let _ = (&wanted_ty, &wanted_host);
            c
        };
        let sample = |slot: u32| -> Option<(u64, BTreeMap<String, i64>)> { tr.events.iter().find(|e| e.d == d && e.slot == slot).and_then(|e| if let EvKind::Metrics(m) = &e.ev { Some((e.t, m.clone())) } else { None }) };
        let kinds = ["cached-ptr", "cached-srv", "cached-txt", "cached-addr", "cached-nsec", "cached-subtype"];
        let mut prev: Option<(u64, BTreeMap<String, i64>, BTreeMap<&'static str, i64>)> = None;
        for slot in [21u32, 22, 23] {
            let Some((t, m)) = sample(slot) else { continue };
            let w = wanted_until(t);
            let total_w: i64 = w.values().sum();
            j.judgements += 1;
            for k in kinds {
                let have = m.get(k).copied().unwrap_or(0);
                let bound = w.get(k).copied().unwrap_or(0) + 2;
                if have > bound {
                    j.fail("C20-R1", format!("sample at t={} (after {} unrequested packets): {} = {} although only {} wanted records of that kind were delivered so far (metrics {:?})", t, tr.rx.iter().filter(|r| r.d == d && r.step.is_some() && matches!(r.src, Src::Peer(1)) && r.t_read.unwrap_or(u64::MAX) <= t).count(), k, have, bound - 2, m.iter().filter(|(k, _)| k.starts_with("cached") || k.as_str() == "timer").collect::<Vec<_>>()));
                    break;
                }
            }
            let timers = m.get("timer").copied().unwrap_or(0);
            let tb = 12 * (total_w + searches + if registered { 4 } else { 0 }) + 16;
            if timers > tb {
                // copies of wanted records (repeats included) whose TTL has not passed yet: each may have left timers
                let mut copies = 0i64;
                for r in tr.rx.iter().filter(|r| r.d == d && r.step.is_some() && r.t_read.unwrap_or(u64::MAX) <= t && matches!(r.src, Src::Peer(0))) {
                    if let Some(mm) = &r.msg {
                        copies += mm.all_records().filter(|x| r.t_read.unwrap_or(0) + (x.ttl.max(1) as u64) * 1000 + 1000 > t).count() as i64;
                    }
                }
                let explained = 4 * copies + tb;
                let tag = if timers <= explained { format!(" (explained by the {} copies of wanted records received within their TTL: every copy queues further wake-ups)", copies) } else { String::new() };
                j.fail("C20-R2", format!("sample at t={}: {} timers pending with {} wanted records delivered, {} searches{}: more than 12 per item + 16 = {}{}", t, timers, total_w, searches, if registered { " and a registration" } else { "" }, tb, tag));
            }
            if let Some((pt, pm, pw)) = &prev {
                if slot == 23 {
                    let dw: i64 = w.values().sum::<i64>() - pw.values().sum::<i64>();
                    // (cached-record counts are bounded absolutely by R1 - a wanted record that expired and is announced again
                    // is cached again without being "new" - so growth between samples is judged for the timers only)
                    for k in ["timer"].iter() {
                        let grow = m.get(*k).copied().unwrap_or(0) - pm.get(*k).copied().unwrap_or(0);
                        let allow = if *k == "timer" { 12 * dw.max(0) + 16 } else { dw.max(0) + 2 };
                        if grow > allow {
                            let mut copies = 0i64;
                            if *k == "timer" {
                                for r in tr.rx.iter().filter(|r| r.d == d && r.step.is_some() && r.t_read.unwrap_or(u64::MAX) <= t && r.t_read.unwrap_or(0) > *pt && matches!(r.src, Src::Peer(0))) {
                                    if let Some(mm) = &r.msg {
                                        copies += mm.all_records().count() as i64;
                                    }
                                }
                            }
                            let tag = if *k == "timer" && grow <= 4 * copies + allow { format!(" (explained by the {} copies of wanted records received in between: every copy queues further wake-ups)", copies) } else { String::new() };
                            j.fail("C20-R3", format!("{} grew from {} (t={}) to {} (t={}) while the searches stayed the same and only {} new wanted records arrived: state grows with the traffic{tag}", k, pm.get(*k).copied().unwrap_or(0), pt, m.get(*k).copied().unwrap_or(0), t, dw));
                            break;
                        }
                    }
                }
            }
            prev = Some((t, m, w));
        }
        // the final sample
        let Some((t, m)) = sample(24) else { return j };
        if t < t_stop {
            return j;
        }
        // (only if every search of the scenario really has its stop call: a minimised scenario may have lost one)
        let all_stopped = scn.ops.iter().all(|o| match &o.op {
            Op::Browse { ty, .. } => scn.ops.iter().any(|x| x.at >= o.at && matches!(&x.op, Op::StopBrowse { ty: t2, .. } if t2 == ty)),
            Op::ResolveHost { host, .. } => scn.ops.iter().any(|x| x.at >= o.at && matches!(&x.op, Op::StopResolveHost { host: h2, .. } if h2.to_lowercase() == host.to_lowercase())),
            _ => true,
        });
        if !all_stopped {
            j.abstained += 1;
            return j;
        }
        j.judgements += 1;
        if n_noise >= 300 {
            j.nontrivial = true;
        }
        let mut clean = true;
        for k in kinds {
            let have = m.get(k).copied().unwrap_or(0);
            if have != 0 {
                clean = false;
                j.fail("C20-R4", format!("all searches were stopped at t={} and every TTL has passed, yet at t={} the daemon reports {} = {} (metrics {:?})", t_stop, t, k, have, m.iter().filter(|(k, _)| k.starts_with("cached") || k.as_str() == "timer").collect::<Vec<_>>()));
                break;
            }
        }
        let timers = m.get("timer").copied().unwrap_or(0);
        let tb = if registered { 8 } else { 1 };
        if timers > tb {
            clean = false;
            j.fail("C20-R4", format!("all searches were stopped at t={} and every TTL has passed, yet at t={} {} timers are pending (at most {} expected: the interface check{})", t_stop, t, timers, tb, if registered { " and the registration's" } else { "" }));
        }
        if clean {
            j.probe("final-sample-clean");
        }
        // R5: no query in the final quiet period
        let t_last = p.get("t_last_packet").and_then(|v| v.as_u64()).unwrap_or(0);
        let quiet_from = t_last + 130_000;
        if let Some(x) = tr.tx.iter().find(|x| x.d == d && x.t > quiet_from && x.msg.as_ref().map(|m| m.is_query() && m.authorities.is_empty()).unwrap_or(false)) {
            j.fail("C20-R5", format!("all searches were stopped at t={}, the last packet arrived at t={}, yet the daemon sends the query {} at t={}", t_stop, t_last, x.msg.as_ref().map(wire::summarize).unwrap_or_default(), x.t));
        }
        j
    }
}
