//! C15 — no API argument and no packet can crash a caller or kill the daemon.

use super::c01::{busy_dut, follow_up, judge_follow_up};
use super::common::*;
use super::mallory;
use super::{Judged, Property, Tier};
use crate::rng::{mix, Rng};
use crate::scenario::*;
use crate::trace::*;
use crate::wire::{self, RData};

pub struct C15;

fn weird_label(rng: &mut Rng) -> String {
    match rng.below(14) {
        0 => String::new(),
        1 => "a".repeat(62),
        2 => "a".repeat(63),
        3 => "a".repeat(64),
        4 => "a".repeat(255),
        5 => format!("{}é", "a".repeat(61)),  // 63 bytes, multi-byte at the end
        6 => format!("{}é", "a".repeat(62)),  // 64 bytes, char straddles byte 63
        7 => "é".repeat(32),                  // 64 bytes
        8 => "a.b".into(),
        9 => "tail\\".into(),
        10 => "\\.".into(),
        11 => "x (9)".into(),
        12 => format!("{} (4294967295)", "n".repeat(40)),
        _ => "日本語🌐".into(),
    }
}

fn weird_type(rng: &mut Rng) -> String {
    match rng.below(16) {
        0 => "._tcp.local.".into(),
        1 => "_._tcp.local.".into(),
        2 => "_tcp.local.".into(),
        3 => format!("_{}._udp.local.", "s".repeat(15)),
        4 => format!("_{}._udp.local.", "s".repeat(16)),
        5 => format!("_{}._udp.local.", "s".repeat(62)),
        6 => format!("_{}._udp.local.", "s".repeat(63)),
        7 => format!("_{}._udp.local.", "s".repeat(64)),
        8 => "_a--b._tcp.local.".into(),
        9 => "_-ab._tcp.local.".into(),
        10 => "_123._tcp.local.".into(),
        11 => "_x._tcp.local.local.".into(),
        12 => "_é._tcp.local.".into(),
        13 => "_sub._sub._x._tcp.local.".into(),
        14 => String::new(),
        _ => format!("_{}._tcp.local.", "q".repeat(70_000)),
    }
}

fn weird_host(rng: &mut Rng) -> String {
    match rng.below(12) {
        0 => ".local.".into(),
        1 => "local.".into(),
        2 => format!("{}.local.", "h".repeat(61)),
        3 => format!("{}.local.", "h".repeat(62)),
        4 => format!("{}.local.", "h".repeat(63)),
        5 => format!("{}.local.", "h".repeat(64)),
        6 => format!("{}.local.", "h".repeat(248)),
        7 => format!("{}.local.", "h".repeat(249)),
        8 => "a..b.local.".into(),
        9 => "host-4294967295.local.".into(),
        10 => "ho\\st.local.local.".into(),
        _ => "ÄÖ.local.".into(),
    }
}

fn weird_txt(rng: &mut Rng) -> Vec<(String, Option<Vec<u8>>)> {
    let mut v = vec![];
    for _ in 0..rng.below(4) {
        let k = match rng.below(8) {
            0 => String::new(),
            1 => "k".repeat(254),
            2 => "k".repeat(255),
            3 => "k".repeat(300),
            4 => "ké".into(),
            5 | 6 => "k".repeat(1 + rng.below(6) as usize),
            _ => "a=b".into(),
        };
        let val = match rng.below(6) {
            0 => None,
            1 => Some(vec![]),
            2 => Some(vec![0xFF; 300]),
            // key + '=' + value around the 255-byte limit of one TXT string: 253..=257
            3 | 4 => Some(vec![b'v'; (252 + rng.below(5) as usize).saturating_sub(k.len())]),
            _ => Some(b"v".to_vec()),
        };
        v.push((k, val));
    }
    v
}

impl Property for C15 {
    fn id(&self) -> &'static str {
        "C15"
    }
    fn count(&self, tier: Tier) -> u64 {
        match tier {
            Tier::Quick => 500,
            Tier::Thorough => 40_000,
        }
    }
    fn rule_text(&self) -> &'static str {
        "two families. 'api': every public function is called with generated arguments (empty, 70 KiB, labels of 62/63/64/255 bytes, multi-byte UTF-8 straddling the 63-byte boundary, dots and backslashes anywhere, trailing backslash, missing / doubled / mis-cased suffixes, only the suffix; numbers 0/1/max; TXT keys of 0..300 bytes, non-ASCII keys, '='; malformed addresses; verify with zero and huge durations; set_service_name_len_max 0..255; every IfKind incl. a predicate) under catch_unwind, then >= 10 s of virtual time with a peer that answers browses and contests every probed name up to three times (so that rename suffixes are appended). 'packet': a busy DUT receives Mallory's packets (as in C01) and well-formed packets with hostile content (labels ending in a backslash, labels with dots, 63-byte labels that grow when escaped, PTR loops, SRV target = owner, TTL 0 / u32::MAX, hundreds of distinct names, hostile TXT) followed by time for the follow-up queries that re-encode received names; clock jumps of +- hours in some worlds. Rules: R1 no panic in a caller; R2 the daemon thread neither panics nor ends, every step finishes; R3 afterwards status() is Running and a fresh query / announcement / registration is served; R4 an accepted registration on a usable interface is announced or reported through DaemonEvent::Error. Non-trivial = a world in which >= 1 generated argument was accepted and deferred work ran on it, or >= 1 hostile packet was read; distinct by schedule signature."
    }
    fn assumptions(&self) -> Vec<&'static str> {
        vec!["the simulator is built with overflow checks on, so arithmetic overflow in the daemon shows as a panic (as it would in a debug build)"]
    }
    fn expected_probes(&self) -> Vec<&'static str> {
        vec!["api-accepted", "api-refused", "rename-happened", "hostile-packet-read", "clock-jump", "label-63-accepted", "family:api", "family:packet"]
    }

    fn gen(&self, seed: u64, index: u64, _tier: Tier) -> Scenario {
        let rs = mix(seed, index);
        let mut rng = Rng::new(rs, 0x15);
        let api = index % 2 == 0;
        let mut s = Scenario::new("C15", if api { "api" } else { "packet" }, rs);
        strict(&mut s);
        s.net.self_loop = rng.bool();
        busy_dut(&mut s, &mut rng);
        // the peer answers browses and contests probes
        let ir = instance_recs("_mal._tcp.local.", "plain", "malhost.local.", 80, &["192.168.1.66"], &[], vec![0], 120, 120);
        s.peers[0].responder = Some(ResponderCfg { records: ir.all(), delay_ms: 10, honor_known_answers: true, additionals: true, active: true, max_answers: None, skip_first: 0, conflict_probes: 3 });
        let mut t = 1500u64;
        let mut slot = 100u32;
        if api {
            for _ in 0..(4 + rng.below(8)) {
                slot += 1;
                let op = match rng.below(16) {
                    0 | 1 => Op::Browse { d: 0, ty: weird_type(&mut rng), slot },
                    2 => Op::BrowseCache { d: 0, ty: weird_type(&mut rng), slot },
                    3 => Op::StopBrowse { d: 0, ty: weird_type(&mut rng) },
                    4 | 5 => Op::ResolveHost { d: 0, host: weird_host(&mut rng), timeout: [None, Some(0), Some(1), Some(u64::MAX), Some(u64::MAX / 2)][rng.below(5) as usize], slot },
                    6 => Op::StopResolveHost { d: 0, host: weird_host(&mut rng) },
                    7 | 8 | 9 | 10 => {
                        let ty = if rng.bool() { format!("_w{}._tcp.local.", rng.below(3)) } else { weird_type(&mut rng) };
                        let host = if rng.bool() { format!("wh{}.local.", rng.below(3)) } else { weird_host(&mut rng) };
                        let addrs = match rng.below(6) {
                            0 => vec!["1.2.3".to_string()],
                            1 => vec!["::g".to_string()],
                            2 => vec![],
                            3 => vec!["192.168.1.10".into(), "fe80::1:10".into(), "10.0.0.1".into()],
                            _ => vec!["192.168.1.10".to_string()],
                        };
                        Op::Register { d: 0, svc: SvcSpec { ty, instance: weird_label(&mut rng), host, addrs, port: [0u16, 1, 65535, 8080][rng.below(4) as usize].wrapping_add(slot as u16 * 7), txt: weird_txt(&mut rng), addr_auto: rng.below(4) == 0, probe: rng.below(4) != 0, intfs: None, link_local_only: rng.below(6) == 0, txt_via: [None, Some("slice".to_string()), Some("map".to_string())][rng.below(3) as usize].clone() } }
                    }
                    11 => Op::Unregister { d: 0, fullname: format!("{}.{}", weird_label(&mut rng), weird_type(&mut rng)), slot },
                    12 => Op::Verify { d: 0, instance: format!("{}._mal._tcp.local.", weird_label(&mut rng)), timeout_ms: [0u64, 1, u64::MAX / 1000, 1 << 40][rng.below(4) as usize] },
                    13 => Op::SetNameLenMax { d: 0, n: [0u8, 1, 15, 30, 31, 255][rng.below(6) as usize] },
                    14 => {
                        let k = match rng.below(8) {
                            0 => IfKindSpec::All,
                            1 => IfKindSpec::IPv6,
                            2 => IfKindSpec::Name(weird_label(&mut rng)),
                            3 => IfKindSpec::Addr("10.255.255.1".into()),
                            4 => IfKindSpec::IndexV4(0),
                            5 => IfKindSpec::IndexV6(u32::MAX),
                            6 => IfKindSpec::NamePrefix("zz".into()),
                            _ => IfKindSpec::LoopbackV4,
                        };
                        if rng.bool() { Op::DisableIf { d: 0, kinds: vec![k] } } else { Op::EnableIf { d: 0, kinds: vec![k] } }
                    }
                    _ => Op::Verify { d: 0, instance: "plain._mal._tcp.local.".into(), timeout_ms: [0u64, 1 << 50][rng.below(2) as usize] },
                };
                s.op(t, op);
                t += 1 + rng.below(700);
            }
            // make sure everything is enabled again for the follow-up
            s.op(t + 100, Op::EnableIf { d: 0, kinds: vec![IfKindSpec::All] });
            s.op(t + 100, Op::SetNameLenMax { d: 0, n: 15 });
            t += 10_000;
        } else {
            s.sched.one_per_step = rng.bool();
            // a registration that is still probing while hostile "simultaneous probes" for its names arrive: authority
            // sections that are a prefix of the daemon's own record set, a superset, records of other names only, none
            {
                let t_reg = t + rng.below(1500);
                let svc = SvcSpec { ty: "_sane._tcp.local.".into(), instance: "probed".into(), host: "probedhost.local.".into(), addrs: vec!["192.168.1.10".into(), "fe80::1:a".into()], port: 7100, txt: vec![("k".into(), Some(b"v".to_vec()))], addr_auto: false, probe: true, intfs: None, link_local_only: false, txt_via: None };
                s.op(t_reg, Op::Register { d: 0, svc: svc.clone() });
                let full = wire::Name::from_dotted("probed._sane._tcp.local.");
                let host = wire::Name::from_dotted("probedhost.local.");
                let other = wire::Name::from_dotted("somebody-else.local.");
                let txt = wire::Rec::txt(&full, wire::txt_encode(&svc.txt), 4500, true);
                let srv = wire::Rec::srv(&full, &host, 7100, 120, true);
                let a = wire::Rec::a(&host, [192, 168, 1, 10], 120, true);
                let aaaa = wire::Rec::aaaa(&host, ip6("fe80::1:a"), 120, true);
                let mut tp = t_reg + 20 + rng.below(80);
                while tp < t_reg + 1000 {
                    let on_host = rng.bool();
                    let name = if on_host { &host } else { &full };
                    let mut m = wire::Msg::query().q(name, wire::T_ANY);
                    m.authorities = match (on_host, rng.below(6)) {
                        (false, 0) => vec![txt.clone()],                       // a prefix of ours
                        (true, 0) => vec![a.clone()],
                        (false, 1) => vec![txt.clone(), srv.clone(), wire::Rec::srv(&full, &host, 9999, 120, true)], // more than ours
                        (true, 1) => vec![a.clone(), aaaa.clone(), wire::Rec::a(&host, [192, 168, 1, 99], 120, true)],
                        (_, 2) => vec![wire::Rec::a(&other, [10, 0, 0, 1], 120, true)], // other names only
                        (_, 3) => vec![wire::Rec::a(&other, [10, 0, 0, 1], 120, true), if on_host { a.clone() } else { txt.clone() }],
                        (false, 4) => vec![srv.clone()],
                        (true, 4) => vec![aaaa.clone()],
                        _ => vec![if on_host { aaaa.clone() } else { srv.clone() }, if on_host { a.clone() } else { txt.clone() }], // ours, other order
                    };
                    s.op(tp, Op::PeerSend { p: 0, v4: true, sport: 5353, msg: m, to: Dest::Mcast });
                    tp += 30 + rng.below(120);
                }
            }
            for _ in 0..(20 + rng.below(60)) {
                let op = match rng.below(5) {
                    0 | 1 => {
                        let ty = if rng.bool() { "_mal._tcp.local." } else { "_sub1._sub._mal._tcp.local." };
                        let m = mallory::hostile_content(&mut rng, ty, "malhost.local.");
                        Op::PeerSend { p: 0, v4: rng.below(4) != 0, sport: 5353, msg: m, to: Dest::Mcast }
                    }
                    2 => {
                        let base = mallory::valid_base(&mut rng, "_mal._tcp.local.", "malhost.local.").encode();
                        Op::PeerRaw { p: 0, v4: true, sport: 5353, hex: wire::hex(&mallory::mutate(&mut rng, base)), to: Dest::Mcast }
                    }
                    3 => Op::PeerRaw { p: 0, v4: true, sport: 5353, hex: wire::hex(&mallory::grammar(&mut rng)), to: Dest::Mcast },
                    _ => {
                        // hostile queries: questions about the DUT's names with odd types / known answers
                        let mut m = wire::Msg::query();
                        m = m.q(&wire::Name::from_dotted("_sane._tcp.local."), [wire::T_PTR, wire::T_ANY, 250, wire::T_NSEC][rng.below(4) as usize]);
                        m.answers.push(wire::Rec::ptr(&wire::Name::from_dotted("_sane._tcp.local."), &wire::Name::from_dotted("sane0._sane._tcp.local."), u32::MAX));
                        Op::PeerSend { p: 0, v4: true, sport: [5353u16, 0, 1, 65535][rng.below(4) as usize], msg: m, to: Dest::Mcast }
                    }
                };
                s.op(t, op);
                t += 5 + rng.below(120);
            }
            if rng.below(3) == 0 {
                s.op(t + 10, Op::ClockJump { d: 0, ms: [3_600_000i64, -3_600_000, 86_400_000, -5000][rng.below(4) as usize] });
            }
            t += 6_000;
        }
        follow_up(&mut s, t);
        s.horizon_ms = t + 4000;
        s.max_steps = 20_000;
        s.sort_ops();
        s
    }

    fn judge(&self, scn: &Scenario, tr: &Trace) -> Judged {
        let mut j = Judged::default();
        j.probe(&format!("family:{}", scn.family));
        // R1 / R2
        for f in &tr.fatal {
            match f.kind.as_str() {
                "caller-panic" => j.fail("C15-R1", format!("a public function panicked in the caller: {}", f.detail.chars().take(500).collect::<String>())),
                "panic" => {
                    // which input is to blame? name the most recent API call or hostile packet
                    let last_api = tr.api.iter().filter(|a| a.t <= f.t && a.outcome == ApiOutcome::Ok && a.op != usize::MAX).last().map(|a| crate::runner::short_op(&scn.ops[a.op].op)).unwrap_or_default();
                    j.fail("C15-R2", format!("the daemon thread panicked at t={}: {} | last accepted call: {}", f.t, f.detail, last_api));
                }
                "hang" => j.fail("C15-R2", format!("a daemon step did not finish at t={}: {}", f.t, f.detail)),
                "exit" => j.fail("C15-R2", format!("the daemon thread ended at t={}: {}", f.t, f.detail)),
                _ => {}
            }
        }
        for a in &tr.api {
            j.judgements += 1;
            match &a.outcome {
                ApiOutcome::Ok => {
                    j.probe("api-accepted");
                    j.nontrivial = true;
                    if let Some(Op::Register { svc, .. }) = scn.ops.get(a.op).map(|o| &o.op) {
                        if svc.instance.len() == 63 {
                            j.probe("label-63-accepted");
                        }
                    }
                }
                ApiOutcome::Panic(_) => {}
                _ => j.probe("api-refused"),
            }
        }
        if tr.events.iter().any(|e| matches!(e.ev, EvKind::MonNameChange { .. })) {
            j.probe("rename-happened");
        }
        if tr.rx.iter().any(|r| r.step.is_some() && matches!(r.src, Src::Peer(_))) && scn.family == "packet" {
            j.probe("hostile-packet-read");
            j.nontrivial = true;
        }
        if scn.ops.iter().any(|o| matches!(o.op, Op::ClockJump { .. })) {
            j.probe("clock-jump");
        }
        // R3
        judge_follow_up(&mut j, "C15-R3", scn, tr);
        // R4: accepted registrations on the DUT's own address are announced or reported as an error
        let dead = tr.fatal.iter().any(|f| matches!(f.kind.as_str(), "panic" | "hang" | "exit"));
        if !dead && scn.family == "api" {
            let errors = tr.events.iter().filter(|e| matches!(e.ev, EvKind::MonError(_))).count();
            for a in tr.api.iter().filter(|a| a.outcome == ApiOutcome::Ok && a.op != usize::MAX) {
                let Op::Register { svc, .. } = &scn.ops[a.op].op else { continue };
                if !svc.addrs.iter().any(|x| x == "192.168.1.10") || svc.link_local_only {
                    continue;
                }
                // unregistered or re-registered later? disabled interfaces? then not judged
                let disturbed = scn.ops.iter().any(|o| matches!(&o.op, Op::DisableIf { .. } | Op::Unregister { .. }));
                if disturbed || a.t + 9000 > tr.stats.sim_ms {
                    continue;
                }
                j.judgements += 1;
                let announced = tr.tx.iter().any(|x| x.t >= a.t && x.msg.as_ref().map(|m| m.is_response() && m.answers.iter().any(|r| matches!(&r.rdata, RData::Srv { port, .. } if *port == svc.port || *port == svc.port.wrapping_add(1)) && r.ttl > 0)).unwrap_or(false));
                let replaced = tr.api.iter().any(|o| o.t > a.t && o.outcome == ApiOutcome::Ok && o.op != usize::MAX && matches!(&scn.ops[o.op].op, Op::Register { svc: s2, .. } if s2.instance == svc.instance && s2.ty == svc.ty));
                if !announced && errors == 0 && !replaced {
                    j.fail("C15-R4", format!("register({:?}, {:?}, {:?}) was accepted at t={} but the service was neither announced within 9 s nor reported through DaemonEvent::Error", svc.ty.chars().take(60).collect::<String>(), svc.instance.chars().take(70).collect::<String>(), svc.host.chars().take(70).collect::<String>(), a.t));
                }
            }
        }
        j
    }
}
