//! C10 — known answers suppress exactly what they should, on both sides.
//! Responder side: worlds and oracle in respond.rs (queries carrying known answers with TTLs
//! around the half-TTL boundary). Querier side: here.

use super::common::*;
use super::model::*;
use super::{Judged, Property, Tier};
use crate::rng::{mix, Rng};
use crate::scenario::*;
use crate::trace::*;
use crate::wire::{self, Name, Rec};

pub struct C10;

fn gen_querier(rs: u64, tier: Tier) -> Scenario {
    let mut rng = Rng::new(rs, 0x10);
    let latency = rng.below(5) == 0;
    let mut s = Scenario::new("C10", if latency { "querier-latency" } else { "querier" }, rs);
    strict(&mut s);
    if latency {
        s.sched.max_latency = [3, 30][rng.below(2) as usize];
    }
    s.net.self_loop = rng.bool();
    let dut = random_dut(&mut rng, 10, 2, true);
    let has4 = dut.ifs[0].addrs.iter().any(|a| a.ip.contains('.'));
    s.duts.push(dut);
    s.op(0, Op::SetIpCheck { d: 0, secs: HUGE_IP_CHECK_SECS });
    let ty = ty_name(rng.below(6));
    let t0 = rng.below(500);
    s.op(t0, Op::Browse { d: 0, ty: ty.clone(), slot: 10 });
    let p = if has4 { peer_v4(1, 50, 0) } else { PeerCfg { seg: 0, v4: None, v6: Some("fe80::1:50".into()), responder: None } };
    s.peers.push(p);
    let tyn = Name::from_dotted(&ty);
    // instances announced so that a scheduled query lands at a chosen age of the PTR
    let n = 1 + rng.below(4);
    let mut horizon = 0u64;
    for k in 0..n {
        let ttl: u32 = match tier {
            Tier::Quick => [2u32, 4, 6, 10, 20, 30, 120][rng.below(7) as usize],
            Tier::Thorough => [2u32, 4, 6, 10, 20, 30, 120, 600, 4500][rng.below(9) as usize],
        };
        // query times of the browse: t0 + (2^k - 1) s
        let kq = 1 + rng.below(7);
        let tq = t0 + ((1u64 << kq) - 1) * 1000;
        let half = ttl as u64 * 500;
        let delta: i64 = [-2i64, -1, 0, 1, 2, -100, 100, -400, 400, -(half as i64) + 5][rng.below(10) as usize];
        let ta = (tq as i64 - half as i64 + delta - 1).max(t0 as i64 + 5) as u64; // -1: network latency
        let mut labels = vec![format!("inst {k}").into_bytes()];
        labels.extend(tyn.0.iter().cloned());
        let inst = Name(labels);
        let ptr = Rec::ptr(&tyn, &inst, ttl);
        let mut recs = vec![ptr];
        if rng.bool() {
            // unique records of the instance: must never be listed as known answers
            recs.push(Rec::srv(&inst, &Name::from_dotted("kahost.local."), 8000, 120, true));
            recs.push(Rec::txt(&inst, vec![0], ttl.max(10), true));
            recs.push(Rec::a(&Name::from_dotted("kahost.local."), [192, 168, 1, 50], 120, true));
        }
        s.op(ta, Op::PeerSend { p: 0, v4: has4, sport: 5353, msg: announce(&recs), to: Dest::Mcast });
        horizon = horizon.max(ta + ttl as u64 * 1000 + 2000).max(tq + 2000);
        if rng.below(3) == 0 {
            // the PTR is announced again with another TTL: from then on half-life and the TTL written follow the new one
            let ttl2 = [2u32, 4, 6, 10, 20, 120, 4500][rng.below(7) as usize];
            let ta2 = ta + 300 + rng.below(2500);
            s.op(ta2, Op::PeerSend { p: 0, v4: has4, sport: 5353, msg: announce(&[recs[0].with_ttl(ttl2)]), to: Dest::Mcast });
            horizon = horizon.max(ta2 + (ttl2 as u64).min(30) * 1000 + 2000);
        }
    }
    s.horizon_ms = horizon.min(match tier {
        Tier::Quick => 200_000,
        Tier::Thorough => 5_000_000,
    });
    s.max_steps = 6000;
    s.sort_ops();
    s
}

impl Property for C10 {
    fn id(&self) -> &'static str {
        "C10"
    }
    fn level(&self) -> &'static str {
        "fault_enumeration"
    }
    fn count(&self, tier: Tier) -> u64 {
        match tier {
            Tier::Quick => 1600,
            Tier::Thorough => 30_000,
        }
    }
    fn exhaustive_part(&self, _tier: Tier) -> Option<&'static str> {
        Some("known-answer TTL boundary grid {0, 1, half-1, half, half+1, full, u32::MAX} x one-field variants (class, rdata, owner, flush bit, wrong section) on the responder side; record age at query time at half-life -2,-1,0,+1,+2 ms and +-100, +-400 ms on the querier side")
    }
    fn rule_text(&self) -> &'static str {
        "two families. 'responder': registration worlds as for C06 whose injected queries carry, as known answers, subsets of the records the daemon would answer with, TTL in {0, 1, half-1, half, half+1, full, u32::MAX} (half of 4500 resp. 120), with one-field variants (class, RDATA, owner, cache-flush bit) and known answers placed in the wrong section; each expected record is classified must-be-absent (same record listed with TTL above half), must-be-present (listed TTL below half or record differs) or not judged (TTL equals half), and a suppressed PTR must take its additionals with it. 'querier': a browsing DUT receives shared PTRs (and unique SRV/TXT/A) with TTLs 2..4500 s timed so that its scheduled queries (initial, retransmitted, refresh) land at half-life -2..+2 ms, +-100, +-400 ms; every listed known answer must be a non-cache-flush record the receive model holds with at least half of its life left and the remaining TTL written; every certainly held shared record with more than half of its life left must be listed; the query must go out on every interface and family. Non-trivial = a query with >= 1 known answer matching a DUT record in all but possibly TTL (responder) / a query sent while >= 1 shared record was cached (querier); distinct by schedule signature."
    }
    fn assumptions(&self) -> Vec<&'static str> {
        vec![
            "responder side: a query read in a step in which the daemon also has scheduled work, or after a conflict rename, is not judged",
            "querier side: records aged within 1 ms (+ injected latency) of exactly half their life are not judged for completeness",
        ]
    }
    fn expected_probes(&self) -> Vec<&'static str> {
        vec!["suppressed", "near-miss-not-suppressed", "ttl-equals-half-not-judged", "additionals-dropped-with-ptr", "ka-listed", "ka-omitted-past-half", "unique-record-cached", "query-near-half-life"]
    }

    fn gen(&self, seed: u64, index: u64, tier: Tier) -> Scenario {
        if index % 2 == 0 {
            let mut s = super::respond::gen_world("C10", super::respond::Flavor::C10, seed, index / 2, tier);
            s.family = format!("responder-{}", s.family);
            s
        } else {
            gen_querier(mix(seed, index), tier)
        }
    }

    fn judge(&self, scn: &Scenario, tr: &Trace) -> Judged {
        if scn.family.starts_with("responder") {
            return super::respond::judge_c10_responder(scn, tr);
        }
        let mut j = Judged::default();
        let d = 0;
        let m = RxModel::build(scn, tr, d);
        let sl = scn.sched.max_latency + if scn.sched.max_latency > 0 { 2 } else { 0 };
        let cfg = &scn.duts[0];
        let chans = channels(&cfg.ifs, cfg.v4, cfg.v6);
        // group DUT queries by (step, question set): one logical query sent on all channels
        let mut seen: Vec<(usize, Vec<u8>)> = vec![];
        for x in tr.tx.iter().filter(|x| x.d == d) {
            let Some(msg) = &x.msg else { continue };
            if !msg.is_query() || !msg.authorities.is_empty() {
                continue;
            }
            if seen.iter().any(|(s, b)| *s == x.step && *b == x.bytes) {
                continue;
            }
            seen.push((x.step, x.bytes.clone()));
            let t = x.t;
            // R5: same packet on every channel
            j.judgements += 1;
            for (ifx, v4) in &chans {
                if !tr.tx.iter().any(|y| y.d == d && y.step == x.step && y.if_index == Some(*ifx) && y.v4 == *v4 && y.bytes == x.bytes) {
                    j.fail("C10-R5", format!("query {} at t={} was not sent on if{} {}", wire::summarize(msg), t, ifx, if *v4 { "v4" } else { "v6" }));
                    break;
                }
            }
            // R3: soundness of each listed known answer
            for ka in &msg.answers {
                j.judgements += 1;
                j.probe("ka-listed");
                j.nontrivial = true;
                if ka.flush() {
                    j.fail("C10-R3", format!("query at t={} lists a cache-flush (unique) record as known answer: {}:{}", t, ka.name.escaped(), wire::ty_name(ka.ty)));
                    continue;
                }
                if !msg.questions.iter().any(|q| q.name.eq_ci(&ka.name) && (q.ty == ka.ty || q.ty == wire::T_ANY)) {
                    j.fail("C10-R3", format!("query at t={} lists {}:{} which answers none of its questions", t, ka.name.escaped(), wire::ty_name(ka.ty)));
                    continue;
                }
                let cand = m.recs.iter().position(|h| h.rec.same_data(ka));
                let Some(i) = cand else {
                    j.fail("C10-R3", format!("query at t={} lists a known answer that was never received: {}:{} {:?}", t, ka.name.escaped(), wire::ty_name(ka.ty), ka.rdata));
                    continue;
                };
                // (records read in this very step come after the query in no case: queries are sent after ingress)
                match m.end_of_life_s(i, t, x.step, None, Mode::Possibly) {
                    None => j.fail("C10-R3", format!("query at t={} lists {} -> {:?} which was not cached", t, ka.name.escaped(), ka.rdata)),
                    Some((t_last, e)) => {
                        let life = e - t_last;
                        let remaining = e.saturating_sub(t);
                        if t >= e {
                            j.fail("C10-R3", format!("query at t={} lists a record that expired at t={}", t, e));
                        } else if (t - t_last) > life / 2 + sl + 1 && m.recs[i].arrivals.iter().filter(|a| a.t <= t).count() == 1 {
                            j.fail("C10-R3", format!("query at t={} lists {} -> {:?} with only {} ms of its {} ms life left (less than half)", t, ka.name.escaped(), ka.rdata, remaining, life));
                        }
                        // written TTL = remaining life within one second
                        let rem_s = remaining / 1000;
                        let w = ka.ttl as u64;
                        if m.recs[i].arrivals.iter().filter(|a| a.t <= t).count() == 1 && (w > rem_s + 1 || w + 1 < rem_s) {
                            j.fail("C10-R3", format!("query at t={} writes TTL {} for a known answer with {} ms of life left", t, w, remaining));
                        }
                        if (t - t_last).abs_diff(life / 2) <= 500 {
                            j.probe("query-near-half-life");
                        }
                    }
                }
            }
            // R4: completeness for shared records answering the questions
            for q in &msg.questions {
                for (i, h) in m.recs.iter().enumerate() {
                    if !(h.rec.name.eq_ci(&q.name) && h.rec.ty == q.ty) {
                        continue;
                    }
                    if h.rec.flush() {
                        j.probe("unique-record-cached");
                        continue;
                    }
                    // exactly one certain arrival so far (refresh histories make "age" ambiguous between copies)
                    let arr: Vec<&Arrival> = h.arrivals.iter().filter(|a| a.step < x.step).collect();
                    if arr.len() != 1 || !arr[0].certain || arr[0].ttl == 0 {
                        continue;
                    }
                    let a = arr[0];
                    let life = (a.ttl.max(1) as u64) * 1000;
                    let age = t - a.t;
                    j.judgements += 1;
                    let listed = msg.answers.iter().any(|k| k.same_data(&h.rec));
                    if age + sl + 1 < life / 2 {
                        j.nontrivial = true;
                        if !listed && msg.answers.len() < 200 {
                            j.fail("C10-R4", format!("query {} at t={}: cached shared record -> {:?} (received t={}, TTL {}) has more than half of its life left but is not listed as known answer", wire::summarize(msg).chars().take(120).collect::<String>(), t, h.rec.rdata, a.t, a.ttl));
                        }
                    } else if age > life / 2 + sl + 1 {
                        j.probe("ka-omitted-past-half");
                        let _ = i;
                    }
                }
            }
        }
        j
    }
}
