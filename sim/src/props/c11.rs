//! C11 — records live for their TTL, refresh at 80/85/90/95 %, obey cache-flush.

use super::common::*;
use super::model::*;
use super::{Judged, Property, Tier};
use crate::rng::{mix, Rng};
use crate::scenario::*;
use crate::trace::*;
use crate::wire::{self, Name, Rec};
use serde_json::json;

pub struct C11;

const BIG_TTLS: [u32; 8] = [600, 4500, 65_535, 86_400, 0x7FFF_FFFF, 0x8000_0000, u32::MAX - 1, u32::MAX];

fn pick_ttl(rng: &mut Rng, index: u64, tier: Tier) -> u32 {
    let bound = match tier {
        Tier::Quick => 60,
        Tier::Thorough => 300,
    };
    match rng.below(10) {
        0 => BIG_TTLS[rng.below(8) as usize],
        1 => [1u32, 2, 3][rng.below(3) as usize],
        // every TTL from 1 up to the bound is visited as the index advances
        _ => 1 + ((index / 2) % bound) as u32,
    }
}

impl Property for C11 {
    fn id(&self) -> &'static str {
        "C11"
    }
    fn level(&self) -> &'static str {
        "fault_enumeration"
    }
    fn count(&self, tier: Tier) -> u64 {
        match tier {
            Tier::Quick => 1500,
            Tier::Thorough => 30_000,
        }
    }
    fn exhaustive_part(&self, tier: Tier) -> Option<&'static str> {
        match tier {
            Tier::Quick => Some("every TTL 1..=60 s is used as the TTL under test (plus 8 large values up to u32::MAX); cache-flush sibling ages every 100 ms in 0..3000 ms plus 999/1000/1001"),
            Tier::Thorough => Some("every TTL 1..=300 s is used as the TTL under test (plus 8 large values up to u32::MAX); cache-flush sibling ages every 100 ms in 0..3000 ms plus 999/1000/1001"),
        }
    }
    fn rule_text(&self) -> &'static str {
        "worlds: a DUT browses a type ('browse' family) or resolves a host name ('host' family); a peer delivers the complete record set with the TTL under test (every TTL 1..60 s quick / 1..300 s thorough, plus 600..u32::MAX) and then (i) stays silent, (ii) answers only the k-th refresh query, (iii) re-sends a record unsolicited at a seeded point of its life, or (iv) sends a cache-flush sibling (same name/type/class, other RDATA) when the first record is 0..3000 ms old (100 ms grid plus 999/1000/1001); strict profile (ms-exact) and stall profile (the daemon is not scheduled across one to three marks or the expiry). Rules: in the strict profile the set of query times per question equals the back-off schedule plus mark(80/85/90/95) of every record life that answers the question (host searches: mark(80) only), a fresh copy restarting the marks; never a refresh query at or after expiry; after a stall at most one query per mark passed; a flushed sibling older than 1 s is gone 1 s after the flush while younger siblings and the flushing record stay (through the C03 and C17 oracles evaluated on the same history); no panic and no absurd wake-up for any TTL. Non-trivial = a world in which >= 1 refresh mark was reached; distinct by schedule signature."
    }
    fn assumptions(&self) -> Vec<&'static str> {
        vec![
            "record lives are computed from the time the daemon read the packet (the crate stamps records at decode time)",
            "the 'use window' clause (a record is used until T+t and never after) is decided by the C03, C05 and C17 oracles, which are evaluated on these worlds too",
        ]
    }
    fn expected_probes(&self) -> Vec<&'static str> {
        vec!["mark-80", "mark-85", "mark-90", "mark-95", "refresh-answered-restarts-marks", "ttl-1", "huge-ttl", "flush-sibling-older-than-1s", "flush-sibling-younger-than-1s", "host-refresh-once", "mark-skipped-by-stall", "unsolicited-copy-restarts-marks"]
    }

    fn gen(&self, seed: u64, index: u64, tier: Tier) -> Scenario {
        let rs = mix(seed, index);
        let mut rng = Rng::new(rs, 0x11);
        let host_family = index % 4 == 3;
        let stall = index % 5 == 4;
        let mut s = Scenario::new("C11", &format!("{}{}", if host_family { "host" } else { "browse" }, if stall { "-stall" } else { "" }), rs);
        strict(&mut s);
        s.net.self_loop = rng.below(3) == 0;
        // dual-stack worlds: the host has an A and an AAAA record, so that a flush of one type must leave the other alone
        let dual = index % 3 == 1;
        s.duts.push(if dual { dut_dual(1, 10, 0) } else { dut_v4(1, 10, 0) });
        s.op(0, Op::SetIpCheck { d: 0, secs: HUGE_IP_CHECK_SECS });
        let ttl = pick_ttl(&mut rng, index, tier);
        let life = ttl as u64 * 1000;
        // the TTL of a later copy of the record under test: same, or a different one (the schedule restarts from the new TTL)
        let ttl2 = match rng.below(4) {
            0 => ttl,
            1 => (ttl / 2).max(1),
            2 => ttl.saturating_mul(2).min(600).max(ttl.min(600)),
            _ => 2 + rng.below(120) as u32,
        };
        let life2 = ttl2 as u64 * 1000;
        let with_ttl = |r: &Rec, t: u32| { let mut c = r.clone(); c.ttl = t; c };
        let mut peer = if dual { peer_dual(1, 50, 0) } else { peer_v4(1, 50, 0) };
        let t0 = 50 + rng.below(400);
        let ta = t0 + 20 + rng.below(1500);
        let variant = rng.below(5);
        let mut horizon = ta + life.min(400_000) + 3000;
        let hostn = Name::from_dotted("RefHost.local.");
        if host_family {
            s.op(t0, Op::ResolveHost { d: 0, host: "refhost.local.".into(), timeout: None, slot: 10 });
            let a = Rec::a(&hostn, [192, 168, 1, 50], ttl, true);
            let mut first = vec![a.clone()];
            if dual {
                first.push(Rec::aaaa(&hostn, ip6("fe80::1:32"), ttl.max(30), true));
            }
            s.op(ta, Op::PeerSend { p: 0, v4: true, sport: 5353, msg: announce(&first), to: Dest::Mcast });
            match variant {
                1 => {
                    // answers queries after skipping the scheduled ones: only refresh queries get an answer
                    peer.responder = Some(ResponderCfg { records: vec![with_ttl(&a, ttl2)], delay_ms: 10, honor_known_answers: false, additionals: false, active: false, max_answers: Some(1 + rng.below(2) as u32), skip_first: 0, conflict_probes: 0 });
                    // switch the responder on just before mark(80)
                    s.op(ta + life * 80 / 100 - 1.min(life / 2), Op::PeerActive { p: 0, on: true });
                    horizon = ta + life.min(300_000) + life2.min(300_000) + 3000;
                }
                2 => {
                    let at = ta + 1 + rng.below(life.min(300_000));
                    s.op(at, Op::PeerSend { p: 0, v4: true, sport: 5353, msg: announce(&[with_ttl(&a, ttl2)]), to: Dest::Mcast });
                    horizon = at + life2.min(300_000) + 3000;
                }
                3 | 4 => {
                    let age = if rng.bool() { [999u64, 1000, 1001][rng.below(3) as usize] } else { rng.below(31) * 100 };
                    let sib = Rec::a(&hostn, [192, 168, 1, 51], ttl.max(5), true);
                    s.op(ta + age, Op::PeerSend { p: 0, v4: true, sport: 5353, msg: announce(&[sib]), to: Dest::Mcast });
                    s.params = json!({"flush_age": age});
                }
                _ => {}
            }
        } else {
            let ty = ty_name(rng.below(6));
            s.op(t0, Op::Browse { d: 0, ty: ty.clone(), slot: 10 });
            // which record class carries the TTL under test; the others live long
            let which = rng.below(4);
            let long = 4500u32.max(ttl.saturating_add(ttl / 2).min(u32::MAX - 1)).min(if ttl > 100_000 { ttl } else { 100_000 });
            let (tp, tsrv, ttxt, taddr) = match which {
                0 => (ttl, long, long, long),
                1 => (long, ttl, long, long),
                2 => (long, long, ttl, long),
                _ => (long, long, long, ttl),
            };
            let mut ir = instance_recs(&ty, "ref inst", "RefHost.local.", 8000, &["192.168.1.50"], if dual { &["fe80::1:32"] } else { &[] }, vec![0], tp, tsrv);
            ir.txt.ttl = ttxt;
            ir.addrs[0].ttl = taddr;
            if dual {
                ir.addrs[1].ttl = long;
            }
            let rec_under_test = match which {
                0 => ir.ptr.clone(),
                1 => ir.srv.clone(),
                2 => ir.txt.clone(),
                _ => ir.addrs[0].clone(),
            };
            s.op(ta, Op::PeerSend { p: 0, v4: true, sport: 5353, msg: announce(&ir.all()), to: Dest::Mcast });
            match variant {
                1 => {
                    peer.responder = Some(ResponderCfg { records: vec![with_ttl(&rec_under_test, ttl2)], delay_ms: 10, honor_known_answers: false, additionals: false, active: false, max_answers: Some(1 + rng.below(2) as u32), skip_first: 0, conflict_probes: 0 });
                    let k = [80u64, 85, 90, 95][rng.below(4) as usize];
                    s.op(ta + (life * k / 100).saturating_sub(1).max(1), Op::PeerActive { p: 0, on: true });
                    horizon = ta + life.min(300_000) + life2.min(300_000) + 3000;
                }
                2 => {
                    let at = ta + 1 + rng.below(life.min(300_000));
                    s.op(at, Op::PeerSend { p: 0, v4: true, sport: 5353, msg: announce(&[with_ttl(&rec_under_test, ttl2)]), to: Dest::Mcast });
                    horizon = at + life2.min(300_000) + 3000;
                }
                3 | 4 => {
                    // cache-flush sibling for SRV or address
                    let age = if rng.bool() { [999u64, 1000, 1001][rng.below(3) as usize] } else { rng.below(31) * 100 };
                    let sib = if which == 1 || rng.bool() {
                        Rec::srv(&ir.inst, &ir.host, 9000, tsrv, true)
                    } else {
                        Rec::a(&ir.host, [192, 168, 1, 51], taddr, true)
                    };
                    s.op(ta + age, Op::PeerSend { p: 0, v4: true, sport: 5353, msg: announce(&[sib]), to: Dest::Mcast });
                    s.params = json!({"flush_age": age});
                }
                _ => {}
            }
        }
        s.peers.push(peer);
        if stall {
            // a stall placed to skip one to three marks, or the expiry itself
            let from = [78u64, 83, 88, 93, 99][rng.below(5) as usize];
            let span = [4u64, 9, 14, 30][rng.below(4) as usize];
            if life < 400_000 {
                s.op(ta + life * from / 100, Op::Stall { d: 0, ms: (life * span / 100).max(1) });
            }
        }
        s.horizon_ms = horizon.min(match tier {
            Tier::Quick => 500_000,
            Tier::Thorough => 2_000_000,
        });
        s.max_steps = 6000;
        s.sort_ops();
        s
    }

    fn judge(&self, scn: &Scenario, tr: &Trace) -> Judged {
        let mut j = Judged::default();
        let d = 0;
        let m = RxModel::build(scn, tr, d);
        let stalled = scn.ops.iter().any(|o| matches!(o.op, Op::Stall { .. }));
        let bw = browse_windows(scn, tr, d);
        let hw = host_windows(scn, tr, d);
        let end = tr.stats.sim_ms;
        // R7: no panic is covered by the runner; sane wake-ups: never a request beyond ~140 years, never a spin
        for st in &tr.steps {
            if let Some(to) = st.timeout {
                if to > 5_000_000_000_000 {
                    j.fail("C11-R7", format!("absurd wake-up request of {} ms at t={}", to, st.t));
                }
            }
        }
        // the use-window clause: C03 / C17 oracles on the same history. Not in stall worlds: a daemon that was not scheduled
        // reads a packet and evicts expired records in the same late iteration, in that order, so an event of that iteration
        // can show a record that ran out during the stall; the slack of those oracles knows wake latency, not stalls
        for v in super::browse::C03.judge(scn, tr).violations.into_iter().filter(|_| !stalled) {
            j.fail("C11-R1", format!("[{}] {}", v.rule, v.detail));
        }
        for v in super::c17::C17.judge(scn, tr).violations.into_iter().filter(|_| !stalled) {
            if v.rule == "C17-R1" || v.rule == "C17-R3" {
                j.fail(if v.detail.contains("flush") { "C11-R6" } else { "C11-R1" }, format!("[{}] {}", v.rule, v.detail));
            }
        }
        // "...while records of the same burst and the new record itself are kept": an address record that is certainly
        // live (not expired, not flushed by a record of its own name/type/class/interface) is listed in every
        // ServiceResolved of an instance on that host (strict worlds only)
        if !stalled {
            for e in tr.events.iter().filter(|e| e.d == d) {
                let EvKind::Resolved(r) = &e.ev else { continue };
                let host = Name::from_dotted(&r.host);
                for &ai in m.find(&host, wire::T_A).iter().chain(m.find(&host, wire::T_AAAA).iter()) {
                    let Some(ip) = rec_ip(&m.recs[ai].rec) else { continue };
                    let first = m.recs[ai].arrivals.iter().map(|a| a.step).min().unwrap_or(usize::MAX);
                    if first >= e.step || !m.recs[ai].arrivals.iter().all(|a| a.certain) {
                        continue;
                    }
                    if m.live_at_s(ai, e.t, e.step, Some(2), Mode::Definitely, 2) && m.live_at(ai, e.t, Some(2), Mode::Definitely, 2) {
                        j.judgements += 1;
                        if !r.addrs.iter().any(|a| a.ip == ip) {
                            let fin = !m.live_at(ai, e.t, Some(2), Mode::Definitely, 1001);
                            j.fail("C11-R6", format!("ServiceResolved({}) at t={} lacks {}{} although its record (arrivals {:?}) is within its TTL and no cache-flush record of the same name, type and class displaced it: the record was not kept", r.fullname, e.t, ip, if fin { ", which is in the final second of its life," } else { "" }, m.recs[ai].arrivals.iter().map(|a| (a.t, a.ttl)).collect::<Vec<_>>()));
                        }
                    }
                }
            }
        }
        if let Some(age) = scn.params.get("flush_age").and_then(|v| v.as_u64()) {
            j.probe(if age > 1000 { "flush-sibling-older-than-1s" } else { "flush-sibling-younger-than-1s" });
        }
        // ---- expected refresh marks per question
        // a record life: (arrival T, ttl, end = next arrival of the same record or expiry)
        struct Q {
            name: Name,
            ty: u16,
            expected: Vec<(u64, &'static str)>,
            forbidden_from: Vec<(u64, u64)>, // [expiry, next arrival): no query allowed unless scheduled
        }
        let mut qs: Vec<Q> = vec![];
        let mut add_marks = |name: &Name, qtys: &[u16], idx: usize, open_t: u64, close_t: u64, only80: bool, j: &mut Judged| {
            let hist: &RecHist = &m.recs[idx];
            let is_addr = matches!(hist.rec.ty, wire::T_A | wire::T_AAAA);
            let iv = m.intervals(idx, if is_addr { hist.arrivals.first().map(|a| a.if_index) } else { None }, Mode::Possibly);
            let mut arr: Vec<&Arrival> = hist.arrivals.iter().collect();
            arr.sort_by_key(|a| (a.t, a.step));
            for (k, a) in arr.iter().enumerate() {
                if a.ttl == 0 {
                    continue; // goodbye: refresh time is moved to the expiry
                }
                // an update of an existing record with TTL 1 also has no marks; only judge first arrivals for ttl 1
                let life = a.ttl as u64 * 1000;
                let next = arr.get(k + 1).map(|n| n.t).unwrap_or(u64::MAX);
                // the life may be cut short by a cache-flush sibling
                let exp = iv.iter().find(|&&(s, e)| s <= a.t && a.t < e).map(|&(_, e)| e).unwrap_or(a.t + life).min(a.t + life);
                // TTL 1 as an *update* of a cached copy has no marks (its refresh time is its expiry); as a new
                // record (first arrival, or after the previous copy expired) it has
                if a.ttl == 1 && k > 0 && a.t < arr[k - 1].t + (arr[k - 1].ttl.max(1) as u64) * 1000 + 2 {
                    continue;
                }
                if a.ttl == 1 {
                    j.probe("ttl-1");
                }
                if a.ttl >= 65_535 {
                    j.probe("huge-ttl");
                }
                if k > 0 {
                    let prev = arr[k - 1];
                    if a.t > prev.t + (prev.ttl as u64) * 800 {
                        j.probe("refresh-answered-restarts-marks");
                    } else if a.t > prev.t {
                        j.probe("unsolicited-copy-restarts-marks");
                    }
                }
                for pc in [80u64, 85, 90, 95] {
                    if only80 && pc != 80 {
                        continue;
                    }
                    let mk = a.t + a.ttl as u64 * 10 * pc;
                    if mk >= next || mk >= exp || mk < open_t || mk >= close_t || mk > end {
                        continue;
                    }
                    for ty in qtys {
                        if let Some(q) = qs.iter_mut().find(|q| q.ty == *ty && q.name.eq_ci(name)) {
                            q.expected.push((mk, match pc { 80 => "mark-80", 85 => "mark-85", 90 => "mark-90", _ => "mark-95" }));
                        } else {
                            qs.push(Q { name: name.clone(), ty: *ty, expected: vec![(mk, match pc { 80 => "mark-80", 85 => "mark-85", 90 => "mark-90", _ => "mark-95" })], forbidden_from: vec![] });
                        }
                    }
                }
                let _ = exp;
            }
        };
        for w in &bw {
            if w.cache_only {
                continue;
            }
            let ty = Name::from_dotted(&w.key);
            for &pi in &m.find(&ty, wire::T_PTR) {
                add_marks(&ty, &[wire::T_PTR], pi, w.open_t, w.close_t, false, &mut j);
                let Some(inst) = ptr_target(&m.recs[pi].rec).cloned() else { continue };
                // SRV / TXT of the instance are refreshed while its PTR is live
                let ptr_iv = m.intervals(pi, None, Mode::Definitely);
                let (plo, phi) = (ptr_iv.first().map(|x| x.0).unwrap_or(0), ptr_iv.last().map(|x| x.1).unwrap_or(0));
                for &si in &m.find(&inst, wire::T_SRV) {
                    add_marks(&inst, &[wire::T_SRV], si, w.open_t.max(plo), w.close_t.min(phi), false, &mut j);
                    if let Some((host, _)) = srv_target(&m.recs[si].rec) {
                        let host = host.clone();
                        let srv_iv = m.intervals(si, None, Mode::Definitely);
                        let (slo, shi) = (srv_iv.first().map(|x| x.0).unwrap_or(0), srv_iv.last().map(|x| x.1).unwrap_or(0));
                        for &ai in m.find(&host, wire::T_A).iter().chain(m.find(&host, wire::T_AAAA).iter()) {
                            add_marks(&host, &[wire::T_A, wire::T_AAAA], ai, w.open_t.max(plo).max(slo), w.close_t.min(phi).min(shi), false, &mut j);
                        }
                    }
                }
                for &ti in &m.find(&inst, wire::T_TXT) {
                    add_marks(&inst, &[wire::T_TXT], ti, w.open_t.max(plo), w.close_t.min(phi), false, &mut j);
                }
            }
        }
        for w in &hw {
            let name = Name::from_dotted(&w.key);
            for &ai in m.find(&name, wire::T_A).iter().chain(m.find(&name, wire::T_AAAA).iter()) {
                // a host search asks only for the type of the record that is due
                let ty = m.recs[ai].rec.ty;
                add_marks(&name, &[ty], ai, w.open_t, w.close_t, true, &mut j);
                j.probe("host-refresh-once");
            }
        }
        // the back-off schedule of the searches (C19) explains the remaining queries
        let mut sched: Vec<(Name, u16, Vec<u64>)> = vec![];
        for w in bw.iter().filter(|w| !w.cache_only) {
            let mut v = vec![];
            let mut t = w.open_t;
            let mut k = 0;
            while t < w.close_t && t <= end {
                v.push(t);
                t += backoff_delay_s(k) * 1000;
                k += 1;
            }
            sched.push((Name::from_dotted(&w.key), wire::T_PTR, v));
        }
        for w in &hw {
            let mut v = vec![];
            let mut t = w.open_t;
            let mut k = 0;
            while t < w.close_t && t <= end {
                v.push(t);
                t += backoff_delay_s(k) * 1000;
                k += 1;
            }
            sched.push((Name::from_dotted(&w.key), wire::T_A, v.clone()));
            sched.push((Name::from_dotted(&w.key), wire::T_AAAA, v));
        }
        // compare per question on the single channel (if2, v4)
        let all_qnames: Vec<(Name, u16)> = {
            let mut v: Vec<(Name, u16)> = qs.iter().map(|q| (q.name.lower(), q.ty)).collect();
            for (n, t, _) in &sched {
                if !v.iter().any(|(a, b)| a == &n.lower() && b == t) {
                    v.push((n.lower(), *t));
                }
            }
            v
        };
        for (name, ty) in all_qnames {
            let mut expected: Vec<(u64, &'static str)> = vec![];
            for q in qs.iter().filter(|q| q.ty == ty && q.name.eq_ci(&name)) {
                expected.extend(q.expected.iter().copied());
                let _ = &q.forbidden_from;
            }
            let mut scheduled: Vec<u64> = sched.iter().filter(|(n, t, _)| *t == ty && n.eq_ci(&name)).flat_map(|(_, _, v)| v.iter().copied()).collect();
            let obs: Vec<u64> = queries_for(tr, d, &name, ty).into_iter().filter(|q| q.if_index == Some(2) && q.v4).map(|q| q.t).collect();
            // several records may share a mark instant: the daemon then sends between one query (browse) and one per
            // record (host search); both satisfy "once per mark"
            expected.sort();
            if !expected.is_empty() {
                j.nontrivial = true;
            }
            // follow-up queries (C04-R3 / C19): up to three, 500 ms apart, after an instance became unresolved,
            // i.e. after the end of a life interval of one of its records
            let mut follow: Vec<u64> = vec![];
            for h in m.recs.iter().enumerate().filter(|(_, h)| matches!(h.rec.ty, wire::T_SRV | wire::T_A | wire::T_AAAA | wire::T_PTR)) {
                for &(_, e) in m.intervals(h.0, None, Mode::Possibly).iter() {
                    for k in 1..=3u64 {
                        follow.push(e + 500 * k);
                    }
                }
            }
            // ... or after a ServiceRemoved / ServiceFound event, or a delivery that left the instance incomplete
            for e in tr.events.iter().filter(|e| e.d == d && matches!(e.ev, EvKind::Removed(..) | EvKind::Found(..))) {
                for k in 1..=3u64 {
                    follow.push(e.t + 500 * k);
                }
            }
            for r in tr.rx.iter().filter(|r| r.d == d && r.step.is_some() && r.src != Src::Dut(d)) {
                for k in 1..=3u64 {
                    follow.push(r.t_read.unwrap_or(0) + 500 * k);
                }
            }
            if !stalled {
                // strict: observed = scheduled ∪ marks (a mark that coincides with a scheduled query may merge with it)
                let mut exp_marks = expected.clone();
                let mut extra = vec![];
                for (oi, t) in obs.iter().enumerate() {
                    if follow.contains(t) && !exp_marks.iter().any(|e| e.0 == *t) && !scheduled.contains(t) {
                        continue;
                    }
                    if let Some(p) = exp_marks.iter().position(|e| e.0 == *t) {
                        j.probe(exp_marks[p].1);
                        exp_marks.remove(p);
                        // the same instant may also be a scheduled query: the two may merge into one packet, or go out as two
                        let more_at_t = obs[oi + 1..].iter().any(|x| x == t);
                        if !more_at_t {
                            if let Some(p2) = scheduled.iter().position(|s| s == t) {
                                scheduled.remove(p2);
                            }
                        }
                    } else if let Some(p) = scheduled.iter().position(|s| s == t) {
                        scheduled.remove(p);
                    } else {
                        extra.push(*t);
                    }
                }
                j.judgements += 1;
                // follow-up and verify queries do not occur in these worlds (complete record sets, no verify)
                if let Some(t) = extra.first() {
                    j.fail("C11-R3", format!("query for {}:{} at t={} is neither on the back-off schedule nor at a refresh mark of a cached record ({} such queries); marks expected at {:?}", name.escaped(), wire::ty_name(ty), t, extra.len(), expected.iter().map(|e| e.0).take(8).collect::<Vec<_>>()));
                }
                exp_marks.retain(|e| e.0 + 2 < end && !obs.contains(&e.0));
                if let Some((t, which)) = exp_marks.first() {
                    j.fail("C11-R2", format!("no refresh query for {}:{} at its {} (t={}); {} marks missed; queries observed at {:?}", name.escaped(), wire::ty_name(ty), which, t, exp_marks.len(), obs.iter().rev().take(8).rev().collect::<Vec<_>>()));
                }
            } else {
                // stall: at most one query per mark passed, none unexplained; marks may be served late
                j.judgements += 1;
                let mut budget = expected.len() + scheduled.len() + follow.iter().filter(|f| **f <= end + 2000).count();
                let first_mark = expected.first().map(|e| e.0).unwrap_or(u64::MAX);
                for t in &obs {
                    if budget == 0 {
                        j.fail("C11-R3", format!("more queries for {}:{} than marks passed plus scheduled queries (at t={})", name.escaped(), wire::ty_name(ty), t));
                        break;
                    }
                    budget -= 1;
                    if *t < first_mark && !scheduled.iter().any(|s| s <= t) {
                        j.fail("C11-R3", format!("query for {}:{} at t={} before the first refresh mark t={}", name.escaped(), wire::ty_name(ty), t, first_mark));
                        break;
                    }
                }
                if obs.len() < expected.len() + scheduled.iter().filter(|s| **s + 2 < end).count() {
                    j.probe("mark-skipped-by-stall");
                }
            }
        }
        // R3: never a refresh query for a record's question at or after its expiry when nothing else is cached or scheduled
        // (covered by the equality above in the strict profile)
        j
    }
}
