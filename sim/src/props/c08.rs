//! C08 — name conflicts resolve to one winner and a consistent new name for the loser.
//!
//! Families:
//!  * "duel": two or three real daemons on one simulated link register the same instance name (and,
//!    in host duels, the same host name) with different data, start offsets from a dense grid, every
//!    probe jitter from a grid. The end state and everything sent after a rename are judged.
//!  * "inject": one daemon, a scripted peer claims the probed name with different data at a chosen
//!    instant of the probing window (once, or again against the new name); hostile names.
//!  * "tiebreak": one daemon, a scripted peer sends a simultaneous probe whose authority records are
//!    a variation of the daemon's; a reference implementation of the RFC 6762 8.2 comparison
//!    says who has to defer.

use super::common::*;
use super::txmodel::{fullname_of, split_sub};
use super::{Judged, Property, Tier};
use crate::rng::{mix, Rng};
use crate::scenario::*;
use crate::trace::*;
use crate::wire::{self, Msg, Name, Question, RData, Rec};
use serde_json::json;
use std::cmp::Ordering;

pub struct C08;

const JG: [u64; 6] = [0, 1, 124, 125, 248, 249];
const OFFSETS: [u64; 30] = [0, 1, 2, 5, 10, 50, 100, 200, 249, 250, 251, 300, 400, 499, 500, 501, 600, 700, 749, 750, 751, 800, 999, 1000, 1001, 1500, 1750, 2000, 3000, 5000];

// ------------------------------------------------------------------------------------------------
// reference rename rules

/// 'x' -> 'x (2)', 'x (N)' -> 'x (N+1)'. None when the statement does not say (N = u32::MAX).
fn next_instance_label(l: &str) -> Option<String> {
    if let Some(p) = l.rfind(" (") {
        if l.ends_with(')') {
            let num = &l[p + 2..l.len() - 1];
            if !num.is_empty() && num.bytes().all(|b| b.is_ascii_digit()) {
                return match num.parse::<u32>() {
                    Ok(n) => n.checked_add(1).map(|m| format!("{} ({})", &l[..p], m)),
                    Err(_) => None,
                };
            }
        }
    }
    Some(format!("{l} (2)"))
}

/// 'h' -> 'h-2', 'h-N' -> 'h-(N+1)'.
fn next_host_label(l: &str) -> Option<String> {
    if let Some(p) = l.rfind('-') {
        let num = &l[p + 1..];
        if !num.is_empty() && num.bytes().all(|b| b.is_ascii_digit()) {
            return match num.parse::<u32>() {
                Ok(n) => n.checked_add(1).map(|m| format!("{}-{}", &l[..p], m)),
                Err(_) => None,
            };
        }
    }
    Some(format!("{l}-2"))
}

fn with_first_label(n: &Name, l: &str) -> Name {
    let mut v = n.0.clone();
    v[0] = l.as_bytes().to_vec();
    Name(v)
}

fn first_label(n: &Name) -> String {
    String::from_utf8_lossy(&n.0[0]).to_string()
}

// ------------------------------------------------------------------------------------------------
// wire helpers

/// probe queries of DUT d that ask for `name`
fn probes_of<'t>(tr: &'t Trace, d: usize, name: &Name) -> Vec<&'t Tx> {
    tr.tx.iter().filter(|x| x.d == d && x.v4 && x.msg.as_ref().map(|m| m.is_query() && !m.authorities.is_empty() && m.questions.iter().any(|q| q.name.0 == name.0)).unwrap_or(false)).collect()
}

/// multicast responses of DUT d whose answer section has a record owned by `name` with TTL > 0 (the name is taken)
fn claims_of<'t>(tr: &'t Trace, d: usize, name: &Name) -> Vec<&'t Tx> {
    tr.tx.iter().filter(|x| x.d == d && x.v4 && x.msg.as_ref().map(|m| m.is_response() && m.answers.iter().any(|r| r.ttl > 0 && r.name.eq_ci(name) && matches!(r.ty, wire::T_SRV | wire::T_TXT | wire::T_A | wire::T_AAAA))).unwrap_or(false)).collect()
}

fn name_changes(tr: &Trace, d: usize) -> Vec<(u64, String, String, u16)> {
    tr.events.iter().filter(|e| e.d == d).filter_map(|e| if let EvKind::MonNameChange { original, new_name, ty, .. } = &e.ev { Some((e.t, original.clone(), new_name.clone(), *ty)) } else { None }).collect()
}

// ------------------------------------------------------------------------------------------------
// reference comparison (RFC 6762 8.2)

fn rdata_bytes(r: &Rec) -> Vec<u8> {
    let name_bytes = |n: &Name| -> Vec<u8> {
        let mut v = vec![];
        for l in &n.0 {
            v.push(l.len() as u8);
            v.extend_from_slice(l);
        }
        v.push(0);
        v
    };
    match &r.rdata {
        RData::A(a) => a.to_vec(),
        RData::AAAA(a) => a.to_vec(),
        RData::Ptr(n) => name_bytes(n),
        RData::Srv { prio, weight, port, target } => {
            let mut v = vec![];
            v.extend_from_slice(&prio.to_be_bytes());
            v.extend_from_slice(&weight.to_be_bytes());
            v.extend_from_slice(&port.to_be_bytes());
            v.extend(name_bytes(target));
            v
        }
        RData::Txt(t) => t.clone(),
        RData::Other(b) => b.clone(),
        _ => vec![],
    }
}

fn rec_cmp(a: &Rec, b: &Rec) -> Ordering {
    (a.class & 0x7FFF).cmp(&(b.class & 0x7FFF)).then(a.ty.cmp(&b.ty)).then_with(|| rdata_bytes(a).cmp(&rdata_bytes(b)))
}

/// Ordering of `mine` against `theirs`: Less = mine is lexicographically earlier = I defer.
fn set_cmp(mine: &[Rec], theirs: &[Rec]) -> Ordering {
    let mut a: Vec<&Rec> = mine.iter().collect();
    let mut b: Vec<&Rec> = theirs.iter().collect();
    a.sort_by(|x, y| rec_cmp(x, y));
    b.sort_by(|x, y| rec_cmp(x, y));
    for (x, y) in a.iter().zip(b.iter()) {
        match rec_cmp(x, y) {
            Ordering::Equal => continue,
            o => return o,
        }
    }
    a.len().cmp(&b.len())
}

// ------------------------------------------------------------------------------------------------
// generators

fn base_spec(instance: &str, host: &str, addr: &str, port: u16, txt: &str) -> SvcSpec {
    SvcSpec { ty: "_duel._tcp.local.".into(), instance: instance.into(), host: host.into(), addrs: vec![addr.into()], port, txt: vec![("id".into(), Some(txt.as_bytes().to_vec()))], addr_auto: false, probe: true, intfs: None, link_local_only: false, txt_via: None }
}

fn final_queries(s: &mut Scenario, t: u64, names: &[Name], hosts: &[Name], ty: &Name) -> u64 {
    let mut tq = t;
    let q = |n: &Name, ty: u16| Question { name: n.clone(), ty, class: 1 };
    let mut sets: Vec<Vec<Question>> = vec![vec![q(ty, wire::T_PTR)]];
    for n in names {
        sets.push(vec![q(n, wire::T_ANY)]);
        sets.push(vec![q(n, wire::T_SRV)]);
        sets.push(vec![q(n, wire::T_TXT)]);
    }
    for h in hosts {
        sets.push(vec![q(h, wire::T_A)]);
        sets.push(vec![q(h, wire::T_ANY)]);
    }
    for qs in sets {
        let mut m = Msg::query();
        m.questions = qs;
        s.op(tq, Op::PeerSend { p: 0, v4: true, sport: 5353, msg: m, to: Dest::Mcast });
        tq += 53;
    }
    tq
}

fn gen_duel(rs: u64, index: u64, _tier: Tier) -> Scenario {
    let mut rng = Rng::new(rs, 0x08);
    let three = index % 7 == 6;
    let host_duel = index % 3 == 1;
    let same_port = index % 5 == 2;
    let mut s = Scenario::new("C08", if host_duel { "duel-host" } else if three { "duel-three" } else { "duel" }, rs);
    strict(&mut s);
    s.net.self_loop = rng.bool();
    let n = if three { 3 } else { 2 };
    let mut jit = vec![];
    for d in 0..n {
        s.duts.push(dut_v4(1, 10 + d as u8, 0));
        s.op(0, Op::SetIpCheck { d, secs: HUGE_IP_CHECK_SECS });
        s.op(0, Op::Monitor { d, slot: 1 });
        jit.push(vec![JG[((index / 7 + d as u64 * 5) % 6) as usize]; 4096]);
    }
    s.sched.jitter = jit.clone();
    s.peers.push(peer_v4(1, 77, 0));
    let inst = ["Dup", "Dup (2)", "My.Dotted", "UPPER dup"][rng.below(4) as usize];
    let off = OFFSETS[(index / 3 % 30) as usize];
    let mut t_regs = vec![];
    for d in 0..n {
        let t = 100 + if d == 0 { 0 } else if d == 1 { off } else { rng.below(3000) };
        let host = if host_duel { "SameHost.local.".to_string() } else { format!("host{d}.local.") };
        let port = if same_port { 8000 } else { 8000 + d as u16 };
        // in a host duel the instances differ (only the host name is contested) in half of the worlds
        let instance = if host_duel && rng.bool() { format!("{inst} {d}") } else { inst.to_string() };
        let mut spec = base_spec(&instance, &host, &format!("192.168.1.{}", 10 + d), port, &format!("d{d}"));
        if index % 3 == 2 {
            spec.ty = "_printer._sub._duel._tcp.local.".into(); // registered with a subtype: one more PTR in every packet
        }
        s.op(t, Op::Register { d, svc: spec });
        t_regs.push(t);
    }
    let t_settle = t_regs.iter().max().unwrap() + 9000;
    // questions about every name that may exist at the end
    let ty = Name::from_dotted("_duel._tcp.local.");
    let mut names = vec![];
    let mut hosts = vec![];
    for o in &s.ops {
        if let Op::Register { svc, .. } = &o.op {
            let f = fullname_of(svc);
            let mut cur = first_label(&f);
            names.push(f.clone());
            for _ in 0..2 {
                if let Some(nx) = next_instance_label(&cur) {
                    names.push(with_first_label(&f, &nx));
                    cur = nx;
                }
            }
            let h = Name::from_dotted(&svc.host);
            let mut cur = first_label(&h);
            hosts.push(h.clone());
            for _ in 0..2 {
                if let Some(nx) = next_host_label(&cur) {
                    hosts.push(with_first_label(&h, &nx));
                    cur = nx;
                }
            }
        }
    }
    names.dedup();
    hosts.dedup();
    let mut seen: Vec<Name> = vec![];
    names.retain(|n| if seen.contains(n) { false } else { seen.push(n.clone()); true });
    let mut seen: Vec<Name> = vec![];
    hosts.retain(|n| if seen.contains(n) { false } else { seen.push(n.clone()); true });
    let tq = final_queries(&mut s, t_settle, &names, &hosts, &ty);
    // withdraw: goodbyes must use the names that were announced
    let mut tu = tq + 500;
    let regs: Vec<(usize, SvcSpec)> = s.ops.iter().filter_map(|o| if let Op::Register { d, svc } = &o.op { Some((*d, svc.clone())) } else { None }).collect();
    for (k, (d, svc)) in regs.iter().enumerate() {
        if rng.bool() {
            s.op(tu, Op::Unregister { d: *d, fullname: fullname_of(svc).escaped(), slot: 40 + k as u32 });
        } else {
            s.op(tu, Op::Shutdown { d: *d, slot: 40 + k as u32 });
        }
        tu += 300;
    }
    s.horizon_ms = tu + 1500;
    s.max_steps = 20_000;
    s.params = json!({"offset": off});
    s.sort_ops();
    s
}

const HOSTILE_INST: [&str; 12] = ["Dup", "Dup (2)", "Dup (9)", "Dup (x)", "Dup (4294967295)", "Dup (07)", "My.Dotted", "tail\\", "Ünï cödé", "a (2) b", "(3)", "x"];
const HOSTILE_HOST: [&str; 8] = ["h.local.", "h-2.local.", "h-9.local.", "h-x.local.", "my-host.local.", "h-4294967295.local.", "UPPER.local.", "h-.local."];

fn gen_inject(rs: u64, index: u64, _tier: Tier) -> Scenario {
    let mut rng = Rng::new(rs, 0x18);
    let mut s = Scenario::new("C08", "inject", rs);
    strict(&mut s);
    s.net.self_loop = rng.bool();
    s.duts.push(dut_v4(1, 10, 0));
    s.op(0, Op::SetIpCheck { d: 0, secs: HUGE_IP_CHECK_SECS });
    s.op(0, Op::Monitor { d: 0, slot: 1 });
    s.op(0, Op::SetNameLenMax { d: 0, n: 255 });
    let j = JG[(index % 6) as usize];
    s.sched.jitter = vec![vec![j; 4096]];
    s.peers.push(peer_v4(1, 77, 0));
    let mut inst = HOSTILE_INST[rng.below(12) as usize].to_string();
    match rng.below(8) {
        0 => inst = "L".repeat(63),
        1 => inst = "L".repeat(59 + rng.below(4) as usize),
        2 => inst = format!("{} (9)", "L".repeat(58)),
        _ => {}
    }
    let mut host = HOSTILE_HOST[rng.below(8) as usize].to_string();
    match rng.below(8) {
        0 => host = format!("{}.local.", "h".repeat(63)),
        1 => host = format!("{}.local.", "h".repeat(61 + rng.below(2) as usize)),
        _ => {}
    }
    let mut spec = base_spec(&inst, &host, "192.168.1.10", 8000, "mine");
    if index % 3 == 1 {
        spec.ty = "_printer._sub._duel._tcp.local.".into();
    }
    let t_reg = 100 + rng.below(200);
    s.op(t_reg, Op::Register { d: 0, svc: spec.clone() });
    let full = fullname_of(&spec);
    let hostn = Name::from_dotted(&host);
    // what is contested: "srv" | "txt" | "both" | "host"
    let kind = ["srv", "txt", "both", "host", "host", "srv"][rng.below(6) as usize];
    let p1 = t_reg + j;
    let off = [1u64, 100, 249, 250, 251, 400, 499, 500, 501, 700, 748][rng.below(11) as usize];
    let tc = p1 + off;
    let conflict = |name_i: &Name, name_h: &Name, gen: u64| -> Msg {
        let mut m = Msg::response();
        match kind {
            "srv" => m.answers.push(Rec::srv(name_i, &Name::from_dotted("other.local."), 9000 + gen as u16, 120, true)),
            "txt" => m.answers.push(Rec::txt(name_i, vec![4, b'o', b'=', b'1', b'0' + gen as u8], 4500, true)),
            "both" => {
                m.answers.push(Rec::srv(name_i, &Name::from_dotted("other.local."), 9000 + gen as u16, 120, true));
                m.answers.push(Rec::txt(name_i, vec![4, b'o', b'=', b'1', b'0' + gen as u8], 4500, true));
            }
            _ => m.answers.push(Rec::a(name_h, [192, 168, 1, 200 + gen as u8], 120, true)),
        }
        m
    };
    s.op(tc, Op::PeerSend { p: 0, v4: true, sport: 5353, msg: conflict(&full, &hostn, 0), to: Dest::Mcast });
    // a second conflict, against the new name, in some worlds
    let rounds = 1 + rng.below(3);
    let mut cur_i = full.clone();
    let mut cur_h = hostn.clone();
    let mut t_next = tc;
    let mut expected_known = true;
    for g in 1..rounds {
        let (ni, nh) = if kind == "host" { (Some(first_label(&cur_i)), next_host_label(&first_label(&cur_h))) } else { (next_instance_label(&first_label(&cur_i)), Some(first_label(&cur_h))) };
        let (Some(ni), Some(nh)) = (ni, nh) else {
            expected_known = false;
            break;
        };
        cur_i = with_first_label(&cur_i, &ni);
        cur_h = with_first_label(&cur_h, &nh);
        // the new probe starts at (read time + jitter): hit it in its window
        t_next = t_next + 1 + j + [1u64, 260, 510, 740][rng.below(4) as usize];
        s.op(t_next, Op::PeerSend { p: 0, v4: true, sport: 5353, msg: conflict(&cur_i, &cur_h, g), to: Dest::Mcast });
    }
    let t_settle = t_next + 4000;
    // questions about every generation of the names
    let ty = Name::from_dotted(&split_sub(&spec.ty).0);
    let mut names = vec![full.clone()];
    let mut hosts = vec![hostn.clone()];
    let (mut ci, mut ch) = (first_label(&full), first_label(&hostn));
    for _ in 0..rounds + 1 {
        if let Some(nx) = next_instance_label(&ci) {
            names.push(with_first_label(&full, &nx));
            ci = nx;
        }
        if let Some(nx) = next_host_label(&ch) {
            hosts.push(with_first_label(&hostn, &nx));
            ch = nx;
        }
    }
    let tq = final_queries(&mut s, t_settle, &names, &hosts, &ty);
    if rng.bool() {
        s.op(tq + 400, Op::Unregister { d: 0, fullname: full.escaped(), slot: 40 });
    } else {
        s.op(tq + 400, Op::Shutdown { d: 0, slot: 40 });
    }
    s.horizon_ms = tq + 2000;
    s.max_steps = 20_000;
    s.params = json!({"kind": kind, "rounds": rounds, "jitter": j, "t_reg": t_reg, "expected_known": expected_known});
    s.sort_ops();
    s
}

fn gen_tiebreak(rs: u64, index: u64, _tier: Tier) -> Scenario {
    let mut rng = Rng::new(rs, 0x28);
    let mut s = Scenario::new("C08", "tiebreak", rs);
    strict(&mut s);
    s.net.self_loop = rng.bool();
    s.duts.push(dut_v4(1, 10, 0));
    s.op(0, Op::SetIpCheck { d: 0, secs: HUGE_IP_CHECK_SECS });
    s.op(0, Op::Monitor { d: 0, slot: 1 });
    let j = JG[(index % 6) as usize];
    s.sched.jitter = vec![vec![j; 4096]];
    s.peers.push(peer_v4(1, 77, 0));
    let host = ["tiehost.local.", "tie-host.local.", "Tie.local."][rng.below(3) as usize];
    let spec = base_spec(["Tie", "tie.break", "TIE Break"][rng.below(3) as usize], host, "192.168.1.10", 8000, "m");
    let t_reg = 100 + rng.below(200);
    s.op(t_reg, Op::Register { d: 0, svc: spec.clone() });
    let full = fullname_of(&spec);
    let hostn = Name::from_dotted(host);
    // the daemon's own records under the two names
    let my_txt = Rec::txt(&full, wire::txt_encode(&spec.txt), 4500, true);
    let my_srv = Rec::srv(&full, &hostn, 8000, 120, true);
    let my_a = Rec::a(&hostn, [192, 168, 1, 10], 120, true);
    let on_host = rng.below(3) == 0;
    let (name, mine): (Name, Vec<Rec>) = if on_host { (hostn.clone(), vec![my_a.clone()]) } else { (full.clone(), vec![my_txt.clone(), my_srv.clone()]) };
    let variant = rng.below(14);
    let mut theirs: Vec<Rec> = mine.clone();
    let mut label = "equal";
    if on_host {
        match variant % 6 {
            0 => {}
            1 => { theirs = vec![Rec::a(&hostn, [192, 168, 1, 11], 120, true)]; label = "addr-later"; }
            2 => { theirs = vec![Rec::a(&hostn, [192, 168, 1, 9], 120, true)]; label = "addr-earlier"; }
            3 => { theirs.push(Rec::a(&hostn, [192, 168, 1, 99], 120, true)); label = "more-records"; }
            4 => { theirs = vec![Rec::aaaa(&hostn, ip6("fe80::1"), 120, true)]; label = "type-later"; }
            _ => { theirs = vec![Rec::a(&hostn, [10, 0, 0, 1], 120, true), Rec::a(&hostn, [192, 168, 1, 10], 120, true)]; label = "unsorted-more"; }
        }
    } else {
        match variant {
            0 => {}
            1 => { theirs[1] = Rec::srv(&full, &hostn, 8001, 120, true); label = "port-later"; }
            2 => { theirs[1] = Rec::srv(&full, &hostn, 7999, 120, true); label = "port-earlier"; }
            3 => { theirs[1] = Rec::srv(&full, &Name::from_dotted("zzz.local."), 8000, 120, true); label = "target-later"; }
            4 => { theirs[1] = Rec::srv(&full, &Name::from_dotted("aaa.local."), 8000, 120, true); label = "target-earlier"; }
            5 => { theirs[0] = Rec::txt(&full, vec![4, b'i', b'd', b'=', b'z'], 4500, true); label = "txt-later"; }
            6 => { theirs[0] = Rec::txt(&full, vec![4, b'i', b'd', b'=', b'a'], 4500, true); label = "txt-earlier"; }
            7 => { theirs.push(Rec::srv(&full, &hostn, 8000, 120, true)); theirs[2] = Rec::srv(&full, &hostn, 9000, 120, true); label = "more-records"; }
            8 => { theirs.truncate(1); label = "fewer-records"; }
            9 => { theirs.swap(0, 1); label = "equal-other-order"; }
            10 => { theirs[1] = Rec::srv(&full, &hostn, 8001, 120, true); theirs.swap(0, 1); label = "port-later-other-order"; }
            11 => { theirs[1] = Rec::srv(&full, &hostn, 8001, 120, false); label = "port-later-no-flush-bit"; }
            12 => { theirs[1] = Rec::srv(&full, &hostn, 7999, 120, true); theirs[0] = Rec::txt(&full, vec![4, b'i', b'd', b'=', b'z'], 4500, true); label = "txt-later-port-earlier"; }
            _ => { theirs[1] = Rec::srv(&full, &hostn, 8000, 3, true); label = "equal-other-ttl"; }
        }
    }
    let p1 = t_reg + j;
    let off = [1u64, 100, 249, 251, 400, 501, 700][rng.below(7) as usize];
    let tp = p1 + off;
    let mut m = Msg::query();
    m.questions.push(Question { name: name.clone(), ty: wire::T_ANY, class: 1 });
    m.authorities = theirs.clone();
    s.op(tp, Op::PeerSend { p: 0, v4: true, sport: 5353, msg: m, to: Dest::Mcast });
    s.horizon_ms = tp + 4000;
    s.max_steps = 10_000;
    s.params = json!({"jitter": j, "t_reg": t_reg, "label": label, "on_host": on_host, "mine": mine, "theirs": theirs, "name": name});
    s.sort_ops();
    s
}

// ------------------------------------------------------------------------------------------------
// oracles

/// After `from_t`, DUT d must not send a positive record owned by / pointing to / targeting any of `dead` names.
fn no_dead_names(j: &mut Judged, tr: &Trace, d: usize, from_t: u64, dead: &[Name], what: &str) {
    for x in tr.tx.iter().filter(|x| x.d == d && x.t >= from_t) {
        let Some(m) = &x.msg else { continue };
        if !m.is_response() {
            continue;
        }
        j.judgements += 1;
        for r in m.all_records() {
            let mut hit: Option<String> = None;
            for dn in dead {
                if r.name.eq_ci(dn) && !matches!(r.ty, wire::T_PTR) {
                    hit = Some(format!("record {} owned by {:?}", wire::ty_name(r.ty), r.name));
                }
                match &r.rdata {
                    RData::Ptr(t) if t.eq_ci(dn) => hit = Some(format!("PTR {:?} -> {:?}", r.name, t)),
                    RData::Srv { target, .. } if target.eq_ci(dn) => hit = Some(format!("SRV {:?} with target {:?}", r.name, target)),
                    _ => {}
                }
            }
            if let Some(h) = hit {
                j.fail("C08-R3", format!("{what}: at t={} (ttl {}) the daemon d{} sends {} although that name was given up at t<={}: not every packet uses the new names", x.t, r.ttl, d, h, from_t));
                return;
            }
        }
    }
}

/// Every scripted question (SRV / TXT / ANY on an instance name, A / ANY on a host name) about a name that daemon `d`
/// holds must be answered by it, in the step that read the question, with a record of that name in the answer section.
fn direct_questions_answered(j: &mut Judged, scn: &Scenario, tr: &Trace, d: usize, held: &[Name]) {
    for (oi, o) in scn.ops.iter().enumerate() {
        let Op::PeerSend { msg, .. } = &o.op else { continue };
        if !msg.is_query() || msg.questions.len() != 1 {
            continue;
        }
        let q = &msg.questions[0];
        if q.ty == wire::T_PTR || !held.iter().any(|h| h.0 == q.name.0) {
            continue;
        }
        let Some(t_op) = tr.op_times.get(oi).copied().flatten() else { continue };
        let Some(rx) = tr.rx.iter().find(|r| r.d == d && r.step.is_some() && r.t_sent == t_op && matches!(r.src, Src::Peer(_)) && r.msg.as_ref().map(|m| m.is_query() && m.questions.first().map(|x| x.name.0 == q.name.0 && x.ty == q.ty).unwrap_or(false)).unwrap_or(false)) else { continue };
        let st = rx.step.unwrap();
        j.judgements += 1;
        let answered = tr.tx.iter().any(|x| x.d == d && x.step == st && x.msg.as_ref().map(|m| m.is_response() && m.answers.iter().any(|r| r.name.eq_ci(&q.name) && (q.ty == wire::T_ANY || r.ty == q.ty))).unwrap_or(false));
        if !answered {
            j.fail("C08-R3", format!("the daemon d{} holds {:?} (announced after the rename) but the question {:?} {} read at t={} got no answer under that name", d, q.name, q.name, wire::ty_name(q.ty), rx.t_read.unwrap_or(0)));
            return;
        }
    }
}

fn judge_duel(scn: &Scenario, tr: &Trace) -> Judged {
    let mut j = Judged::default();
    let regs: Vec<(usize, SvcSpec, u64)> = scn.ops.iter().enumerate().filter_map(|(oi, o)| if let Op::Register { d, svc } = &o.op { api_of_op(tr, oi).filter(|a| a.outcome == ApiOutcome::Ok).map(|a| (*d, svc.clone(), a.t)) } else { None }).collect();
    if regs.len() < 2 {
        return j;
    }
    let t_q = scn.ops.iter().filter_map(|o| if let Op::PeerSend { msg, .. } = &o.op { if msg.is_query() { Some(o.at) } else { None } } else { None }).min().unwrap_or(tr.stats.sim_ms);
    // the end state is judged only after the daemons had time to settle (8 s after the last registration)
    if t_q > tr.stats.sim_ms || t_q < regs.iter().map(|r| r.2).max().unwrap_or(0) + 8000 {
        j.abstained += 1;
        return j;
    }
    // the names each daemon holds when the questions start: last claim before t_q
    let mut held_i: Vec<Option<Name>> = vec![];
    let mut held_h: Vec<Option<Name>> = vec![];
    for (d, _, _) in &regs {
        let mut li = None;
        let mut lh = None;
        for x in tr.tx.iter().filter(|x| x.d == *d && x.t < t_q) {
            let Some(m) = &x.msg else { continue };
            if !m.is_response() {
                continue;
            }
            for r in &m.answers {
                if r.ttl == 0 {
                    continue;
                }
                match &r.rdata {
                    RData::Srv { .. } => li = Some(r.name.clone()),
                    RData::A(_) => lh = Some(r.name.clone()),
                    _ => {}
                }
            }
        }
        held_i.push(li);
        held_h.push(lh);
    }
    j.judgements += 1;
    j.nontrivial = true;
    let off = scn.params.get("offset").and_then(|v| v.as_u64()).unwrap_or(0);
    if off < 750 {
        j.probe("both-probing-at-once");
    } else {
        j.probe("second-starts-after-first-announced");
    }
    // R1: everybody announced; contested names have exactly one holder
    for (k, (d, svc, t)) in regs.iter().enumerate() {
        if held_i[k].is_none() {
            j.fail("C08-R1", format!("daemon d{} registered {:?} at t={} but has not announced any instance by t={} (start offset {} ms)", d, svc.instance, t, t_q, off));
            return j;
        }
    }
    for a in 0..regs.len() {
        for b in a + 1..regs.len() {
            let (fa, fb) = (fullname_of(&regs[a].1), fullname_of(&regs[b].1));
            if let (Some(x), Some(y)) = (&held_i[a], &held_i[b]) {
                if x.eq_ci(y) {
                    j.fail("C08-R1", format!("daemons d{} and d{} both hold the instance name {:?} with different data at t={} (registered at t={} and t={})", regs[a].0, regs[b].0, x, t_q, regs[a].2, regs[b].2));
                    return j;
                }
            }
            if let (Some(x), Some(y)) = (&held_h[a], &held_h[b]) {
                if x.eq_ci(y) && regs[a].1.addrs != regs[b].1.addrs {
                    j.fail("C08-R1", format!("daemons d{} and d{} both hold the host name {:?} with different addresses at t={}", regs[a].0, regs[b].0, x, t_q));
                    return j;
                }
            }
            if fa.eq_ci(&fb) && regs.len() == 2 {
                let orig = [&held_i[a], &held_i[b]].iter().filter(|h| h.as_ref().map(|n| n.eq_ci(&fa)).unwrap_or(false)).count();
                if orig != 1 {
                    j.fail("C08-R1", format!("{} of the two daemons hold the original name {:?} at t={} (held: {:?} and {:?}): exactly one must", orig, fa, t_q, held_i[a], held_i[b]));
                    return j;
                }
            }
        }
    }
    // R2 / R3 per daemon
    for (k, (d, svc, _)) in regs.iter().enumerate() {
        let full = fullname_of(svc);
        let host = Name::from_dotted(&svc.host);
        let hi = held_i[k].clone().unwrap();
        let mut dead: Vec<Name> = vec![];
        if !hi.eq_ci(&full) {
            j.probe("instance-renamed");
            dead.push(full.clone());
            // new name follows the rule (possibly several steps)
            let mut cur = first_label(&full);
            let mut ok = false;
            for _ in 0..4 {
                match next_instance_label(&cur) {
                    Some(nx) => {
                        if with_first_label(&full, &nx).0 == hi.0 {
                            ok = true;
                            break;
                        }
                        cur = nx;
                    }
                    None => break,
                }
            }
            if !ok {
                j.fail("C08-R5", format!("daemon d{} lost {:?} and now holds {:?}: not 'x' -> 'x (2)' counting up", d, full, hi));
            }
            let ch = name_changes(tr, *d);
            if !ch.iter().any(|(_, _, n, _)| Name::from_dotted(n).eq_ci(&hi) || n.trim_end_matches('.') == hi.dotted().trim_end_matches('.')) {
                j.fail("C08-R2", format!("daemon d{} renamed its instance to {:?} but no NameChange event reports that name (events: {:?})", d, hi, ch));
            }
        }
        if let Some(hh) = &held_h[k] {
            if !hh.eq_ci(&host) {
                j.probe("host-renamed");
                dead.push(host.clone());
                let ch = name_changes(tr, *d);
                if !ch.iter().any(|(_, _, n, _)| Name::from_dotted(n).eq_ci(hh)) {
                    j.fail("C08-R2", format!("daemon d{} renamed its host to {:?} but no NameChange event reports that name (events: {:?})", d, hh, ch));
                }
                let mut cur = first_label(&host);
                let mut ok = false;
                for _ in 0..4 {
                    match next_host_label(&cur) {
                        Some(nx) => {
                            if with_first_label(&host, &nx).0 == hh.0 {
                                ok = true;
                                break;
                            }
                            cur = nx;
                        }
                        None => break,
                    }
                }
                if !ok {
                    j.fail("C08-R5", format!("daemon d{} lost {:?} and now holds {:?}: not 'h' -> 'h-2' counting up", d, host, hh));
                }
            }
        }
        if !dead.is_empty() {
            // names given up are only dead for this daemon if it does not hold them through another service
            no_dead_names(&mut j, tr, *d, t_q, &dead, "after the rename");
            // and the names it holds now are answered for
            let mut held = vec![hi.clone()];
            if let Some(hh) = &held_h[k] {
                held.push(hh.clone());
            }
            // (not when another daemon ended up with the same name: R1 reports that)
            let unique = (0..regs.len()).all(|o| o == k || held_i[o].as_ref().map(|n| !n.eq_ci(&hi)).unwrap_or(true));
            if unique && j.violations.is_empty() {
                direct_questions_answered(&mut j, scn, tr, *d, &held);
            }
        }
    }
    j
}

fn judge_inject(scn: &Scenario, tr: &Trace) -> Judged {
    let mut j = Judged::default();
    let d = 0;
    let Some((oi, svc)) = scn.ops.iter().enumerate().find_map(|(oi, o)| if let Op::Register { svc, .. } = &o.op { Some((oi, svc.clone())) } else { None }) else { return j };
    let Some(api) = api_of_op(tr, oi) else { return j };
    if api.outcome != ApiOutcome::Ok {
        return j;
    }
    let kind = scn.params.get("kind").and_then(|v| v.as_str()).unwrap_or("srv").to_string();
    let full = fullname_of(&svc);
    let hostn = Name::from_dotted(&svc.host);
    let t_q = scn.ops.iter().filter_map(|o| if let Op::PeerSend { msg, .. } = &o.op { if msg.is_query() { Some(o.at) } else { None } } else { None }).min().unwrap_or(u64::MAX);
    // walk the conflicts in the order they were read
    let mut cur_i = full.clone();
    let mut cur_h = hostn.clone();
    let mut dead: Vec<Name> = vec![];
    let mut dead_from = 0u64;
    for rx in tr.rx.iter().filter(|r| r.d == d && r.step.is_some() && matches!(r.src, Src::Peer(_))) {
        let Some(m) = &rx.msg else { continue };
        if !m.is_response() {
            continue;
        }
        let t_read = rx.t_read.unwrap_or(rx.t_arrive);
        let contested = if kind == "host" { cur_h.clone() } else { cur_i.clone() };
        if !m.answers.iter().any(|r| r.name.0 == contested.0) {
            continue; // a conflict against a name the daemon does not probe (any more)
        }
        // is the contested name being probed at t_read? first probe sent, no claim yet
        let pr = probes_of(tr, d, &contested);
        let started = pr.iter().any(|p| p.t < t_read || (p.t == t_read && p.step < rx.step.unwrap()));
        let claimed = claims_of(tr, d, &contested).iter().any(|c| c.t < t_read || (c.t == t_read && c.step <= rx.step.unwrap()));
        if !started || claimed {
            j.abstained += 1;
            continue;
        }
        j.judgements += 1;
        j.nontrivial = true;
        j.probe(&format!("conflict-on-{kind}"));
        let n_probes_before = pr.iter().filter(|p| p.t <= t_read).count();
        j.probe(&format!("conflict-after-probe-{}", n_probes_before.min(3)));
        // R4: the contested name is never claimed
        if let Some(c) = claims_of(tr, d, &contested).iter().find(|c| c.t >= t_read) {
            j.fail("C08-R4", format!("{:?} was claimed by another host at t={} while the daemon was probing for it ({} probes sent), yet the daemon sends a response with records under that name at t={}", contested, t_read, n_probes_before, c.t));
            return j;
        }
        // R5: the new name
        let (want_i, want_h) = if kind == "host" { (Some(first_label(&cur_i)), next_host_label(&first_label(&cur_h))) } else { (next_instance_label(&first_label(&cur_i)), Some(first_label(&cur_h))) };
        let (Some(wi), Some(wh)) = (want_i, want_h) else {
            j.probe("suffix-cannot-count-up");
            j.abstained += 1;
            return j;
        };
        let new_i = with_first_label(&cur_i, &wi);
        let new_h = with_first_label(&cur_h, &wh);
        let new_name = if kind == "host" { new_h.clone() } else { new_i.clone() };
        if new_name.0[0].len() > 63 {
            // the rule would give a label that cannot be encoded: the daemon must still end up with some other,
            // encodable name
            j.probe("new-label-would-exceed-63");
            let later: Vec<&Tx> = tr.tx.iter().filter(|x| x.d == d && x.t > t_read && x.msg.as_ref().map(|m| m.is_response() && m.answers.iter().any(|r| r.ttl > 0 && matches!(r.ty, wire::T_SRV | wire::T_A))).unwrap_or(false)).collect();
            if let Some(x) = later.first() {
                let m = x.msg.as_ref().unwrap();
                let owner = m.answers.iter().find(|r| if kind == "host" { r.ty == wire::T_A } else { r.ty == wire::T_SRV }).map(|r| r.name.clone());
                if let Some(o) = owner {
                    if o.eq_ci(&contested) {
                        j.fail("C08-R7", format!("after the conflict on {:?} (label of {} bytes) the daemon announces {:?}: the new name is not encodable as a different name", contested, contested.0[0].len(), o));
                    }
                }
            } else if t_read + 3000 < tr.stats.sim_ms && daemon_alive_at_end(tr, d) {
                j.fail("C08-R7", format!("after the conflict on {:?} (label of {} bytes; the counted-up label would have {} bytes) the daemon never announced the service under any name", contested, contested.0[0].len(), new_name.0[0].len()));
            }
            return j;
        }
        let npr = probes_of(tr, d, &new_name);
        if npr.is_empty() {
            let asked: Vec<String> = tr.tx.iter().filter(|x| x.d == d && x.t >= t_read).filter_map(|x| x.msg.as_ref()).filter(|m| m.is_query() && !m.authorities.is_empty()).flat_map(|m| m.questions.iter().map(|q| format!("{:?}", q.name))).collect();
            j.fail("C08-R5", format!("conflict on {:?} read at t={}: the daemon never probes the new name {:?} ('x' -> 'x (2)', 'h' -> 'h-2', counting up); names probed afterwards: {:?}", contested, t_read, new_name, asked.iter().take(6).collect::<Vec<_>>()));
            return j;
        }
        let first_new = npr[0].t;
        if first_new < t_read || first_new > t_read + 250 + 2 {
            j.fail("C08-R5", format!("conflict on {:?} read at t={}: first probe for {:?} at t={} (expected within 250 ms)", contested, t_read, new_name, first_new));
        }
        dead.push(contested.clone());
        if dead_from == 0 {
            dead_from = t_read;
        }
        cur_i = new_i;
        cur_h = new_h;
        // R6: three probes 250 ms apart before the name is claimed, unless the next conflict interrupts
        let next_conf = tr.rx.iter().filter(|r| r.d == d && r.step.is_some() && matches!(r.src, Src::Peer(_)) && r.t_read.unwrap_or(0) > t_read && r.msg.as_ref().map(|m| m.is_response() && m.answers.iter().any(|a| a.name.0 == new_name.0)).unwrap_or(false)).map(|r| r.t_read.unwrap()).next();
        if next_conf.map(|t| t > first_new + 760).unwrap_or(true) && first_new + 800 < tr.stats.sim_ms {
            // the new name is probed three times, 250 ms apart or more, before it is claimed (a probe set may be postponed
            // by a tiebreak, also against the daemon's own looped-back probe while its record set is being rebuilt)
            let claim = claims_of(tr, d, &new_name).first().map(|c| c.t);
            let times: Vec<u64> = npr.iter().map(|p| p.t).filter(|t| claim.map(|c| *t < c).unwrap_or(true)).collect();
            match claim {
                None => {
                    if first_new + 4000 < tr.stats.sim_ms && daemon_alive_at_end(tr, d) {
                        j.fail("C08-R6", format!("new name {:?} probed at {:?} but never announced by t={}", new_name, times, tr.stats.sim_ms));
                    }
                }
                Some(c) => {
                    if times.len() < 3 || times.windows(2).any(|w| w[1] < w[0] + 250) || c < first_new + 750 {
                        j.fail("C08-R6", format!("new name {:?}: probes at {:?}, announced at t={}: expected at least three probes 250 ms apart and the announcement no earlier than 750 ms after the first", new_name, times, c));
                    }
                }
            }
            // R2: the event
            let ch = name_changes(tr, d);
            if !ch.iter().any(|(_, _, n, _)| Name::from_dotted(n).0 == new_name.0) {
                j.fail("C08-R2", format!("the daemon took the new name {:?} but no NameChange event carries it (events: {:?})", new_name, ch));
            }
        }
    }
    // R3: after the last rename, every packet uses the new names
    if !dead.is_empty() && t_q != u64::MAX {
        // a name is only dead if the daemon did not end up holding it again
        let dead: Vec<Name> = dead.into_iter().filter(|n| !n.eq_ci(&cur_i) && !n.eq_ci(&cur_h)).collect();
        no_dead_names(&mut j, tr, d, t_q, &dead, "after the rename");
        // and the questions for the new names are answered with the new names
        let answered_srv = tr.tx.iter().any(|x| x.d == d && x.t >= t_q && x.msg.as_ref().map(|m| m.is_response() && m.all_records().any(|r| r.name.0 == cur_i.0 && matches!(&r.rdata, RData::Srv { target, .. } if target.0 == cur_h.0))).unwrap_or(false));
        if daemon_alive_at_end(tr, d) || true {
            let reached = claims_of(tr, d, &cur_i).iter().any(|c| c.t < t_q);
            if reached {
                j.judgements += 1;
                if !answered_srv {
                    let seen: Vec<String> = tr.tx.iter().filter(|x| x.d == d && x.t >= t_q).filter_map(|x| x.msg.as_ref()).filter(|m| m.is_response()).flat_map(|m| m.all_records().filter(|r| r.ty == wire::T_SRV).map(|r| format!("{:?}", r)).collect::<Vec<_>>()).take(3).collect();
                    j.fail("C08-R3", format!("questions for the final names {:?} / {:?} from t={}: no response carries SRV {:?} -> {:?}; SRV records seen: {:?}", cur_i, cur_h, t_q, cur_i, cur_h, seen));
                }
                let answered_a = tr.tx.iter().any(|x| x.d == d && x.t >= t_q && x.msg.as_ref().map(|m| m.is_response() && m.answers.iter().any(|r| r.name.0 == cur_h.0 && r.ty == wire::T_A)).unwrap_or(false));
                if !answered_a {
                    j.fail("C08-R3", format!("the question {:?} A (the host name in use) from t={} was not answered with an A record of that name", cur_h, t_q));
                }
                if j.violations.is_empty() {
                    direct_questions_answered(&mut j, scn, tr, d, &[cur_i.clone(), cur_h.clone()]);
                }
            }
        }
    }
    j
}

fn judge_tiebreak(scn: &Scenario, tr: &Trace) -> Judged {
    let mut j = Judged::default();
    let d = 0;
    let p = &scn.params;
    let (Some(mine), Some(theirs), Some(name)) = (p.get("mine").and_then(|v| serde_json::from_value::<Vec<Rec>>(v.clone()).ok()), p.get("theirs").and_then(|v| serde_json::from_value::<Vec<Rec>>(v.clone()).ok()), p.get("name").and_then(|v| serde_json::from_value::<Name>(v.clone()).ok())) else { return j };
    let label = p.get("label").and_then(|v| v.as_str()).unwrap_or("");
    let Some(rx) = tr.rx.iter().find(|r| r.d == d && r.step.is_some() && matches!(r.src, Src::Peer(_)) && r.msg.as_ref().map(|m| m.is_query() && !m.authorities.is_empty()).unwrap_or(false)) else { return j };
    let t_read = rx.t_read.unwrap_or(rx.t_arrive);
    let pr = probes_of(tr, d, &name);
    let before: Vec<u64> = pr.iter().filter(|x| x.t < t_read || (x.t == t_read && x.step < rx.step.unwrap())).map(|x| x.t).collect();
    let claimed_before = claims_of(tr, d, &name).iter().any(|c| c.t <= t_read);
    if before.is_empty() || claimed_before {
        j.abstained += 1;
        return j; // the probe had not started / was over: the rule does not apply
    }
    let verdict = set_cmp(&mine, &theirs);
    j.judgements += 1;
    j.nontrivial = true;
    j.probe(&format!("tiebreak-{label}"));
    let p1 = before[0];
    let after: Vec<u64> = pr.iter().filter(|x| !(x.t < t_read || (x.t == t_read && x.step < rx.step.unwrap()))).map(|x| x.t).collect();
    let first_claim = claims_of(tr, d, &name).first().map(|c| c.t);
    match verdict {
        Ordering::Less => {
            j.probe("daemon-must-defer");
            // waits one second, then probes again (three probes), then announces
            let want = [t_read + 1000, t_read + 1250, t_read + 1500];
            if after.len() < 3 || after[..3] != want {
                j.fail("C08-R8", format!("simultaneous probe for {:?} read at t={} with lexicographically later data ({label}): the daemon has to wait one second and probe again at {:?}; its probes after that instant: {:?} (before: {:?}), first announcement {:?}", name, t_read, want, after, before, first_claim));
                return j;
            }
            if first_claim != Some(t_read + 1750) {
                j.fail("C08-R8", format!("after losing the comparison for {:?} at t={} the name is announced at {:?}, expected t={}", name, t_read, first_claim, t_read + 1750));
            }
        }
        _ => {
            j.probe(if verdict == Ordering::Equal { "identical-data-no-conflict" } else { "daemon-wins" });
            let want: Vec<u64> = [p1, p1 + 250, p1 + 500].into_iter().collect();
            let all: Vec<u64> = pr.iter().map(|x| x.t).collect();
            if all.len() < 3 || all[..3] != want[..] || all.len() > 3 {
                j.fail("C08-R8", format!("simultaneous probe for {:?} read at t={} with {} data ({label}): the daemon has to carry on probing at {:?}; probes seen at {:?}", name, t_read, if verdict == Ordering::Equal { "identical" } else { "lexicographically earlier" }, want, all));
                return j;
            }
            if first_claim != Some(p1 + 750) {
                j.fail("C08-R8", format!("the daemon won the comparison for {:?} but announces at {:?}, expected t={}", name, first_claim, p1 + 750));
            }
        }
    }
    j
}

/// Names whose labels contain '.' or '\\' take a different path in the crate (own names are escaped strings, names
/// from the wire are not): violations on them are tagged so that the known finding about them stays narrow.
fn tag_escaped(mut j: Judged, scn: &Scenario) -> Judged {
    let escaped = scn.ops.iter().any(|o| matches!(&o.op, Op::Register { svc, .. } if svc.instance.contains('.') || svc.instance.contains('\\')));
    if escaped {
        for v in j.violations.iter_mut() {
            v.detail = format!("[instance name with '.' or '\\' in its label] {}", v.detail);
        }
    }
    j
}

impl Property for C08 {
    fn id(&self) -> &'static str {
        "C08"
    }
    fn level(&self) -> &'static str {
        "fault_enumeration"
    }
    fn count(&self, tier: Tier) -> u64 {
        match tier {
            Tier::Quick => 1800,
            Tier::Thorough => 60_000,
        }
    }
    fn exhaustive_part(&self, _tier: Tier) -> Option<&'static str> {
        Some("duel family: start offset grid {0,1,2,5,10,50,100,200,249,250,251,300,400,499,500,501,600,700,749,750,751,800,999,1000,1001,1500,1750,2000,3000,5000} ms x probe jitter grid {0,1,124,125,248,249} per daemon; inject family: conflict at probe start +1,100,249,250,251,400,499,500,501,700,748 ms x jitter grid; tiebreak family: 14 + 6 record-set variations x 7 instants x jitter grid")
    }
    fn rule_text(&self) -> &'static str {
        "three families. 'duel' (2 of 4): two (sometimes three) real daemons on one loss-free simulated link register the same instance name with different port / host / address (host duels: the same host name with different addresses), the second one 0..5000 ms after the first (grid), every probe jitter from a grid; then a peer asks PTR / ANY / SRV / TXT / A / ANY-host questions for every generation of the names and the services are withdrawn (unregister or shutdown). R1 every daemon has announced, no contested name has two holders, exactly one of two holds the original; R2 a renamed daemon reported the new name in a NameChange event; R3 from then on no packet of it (answers, additionals, goodbyes) carries the lost name as owner, PTR target or SRV target; R5 new names are 'x (2)', 'x (3)' / 'h-2', 'h-3'. 'inject' (1 of 4): one daemon, a scripted peer claims the SRV, the TXT, both, or the host address of the name under probe at probe start +1..748 ms, in 1-3 rounds (the later rounds against the new name); instance and host names with existing '(N)' / '-N' suffixes incl. u32::MAX, escaped dots, trailing backslash, non-ASCII, 58-63 byte labels. R4 the contested name is never claimed afterwards; R5 the counted-up name is probed within 250 ms; R6 three probes 250 ms apart and the announcement 750 ms after the first; R2 NameChange carries it; R7 when the counted-up label would exceed 63 bytes the daemon still ends up with a different, encodable name; R3 as above plus the final questions are answered under the final names with SRV target = final host. 'tiebreak' (1 of 4): one daemon, a scripted peer sends a simultaneous probe for the instance or host name whose authority records vary the daemon's (port / target / TXT / address later and earlier, more and fewer records, other order, no cache-flush bit, other TTL, identical); a reference RFC 6762 8.2 comparison (class, type, raw RDATA, then count, over sorted sets) decides; R8 the loser waits exactly one second, probes three times again and announces 1750 ms after the lost comparison, the winner's schedule is unchanged. Non-trivial = a world in which a conflict or a simultaneous probe reached the daemon while it was probing; distinct by schedule signature."
    }
    fn assumptions(&self) -> Vec<&'static str> {
        vec![
            "a name counts as taken when a multicast response of the daemon carries a positive SRV / TXT / address record owned by it in the answer section",
            "conflicts that arrive before the first probe or after the name was announced are outside the statement ('while probing') and are not judged",
            "a suffix that cannot count up (N = u32::MAX) is not judged for the exact new name",
        ]
    }
    fn expected_probes(&self) -> Vec<&'static str> {
        vec!["both-probing-at-once", "second-starts-after-first-announced", "instance-renamed", "host-renamed", "conflict-on-srv", "conflict-on-txt", "conflict-on-both", "conflict-on-host", "conflict-after-probe-1", "conflict-after-probe-2", "conflict-after-probe-3", "daemon-must-defer", "daemon-wins", "identical-data-no-conflict", "new-label-would-exceed-63"]
    }

    fn gen(&self, seed: u64, index: u64, tier: Tier) -> Scenario {
        let rs = mix(seed, index);
        match index % 4 {
            0 | 1 => gen_duel(rs, index / 4 * 2 + index % 4, tier),
            2 => gen_inject(rs, index / 4, tier),
            _ => gen_tiebreak(rs, index / 4, tier),
        }
    }

    fn judge(&self, scn: &Scenario, tr: &Trace) -> Judged {
        let mut j = match scn.family.as_str() {
            "inject" => judge_inject(scn, tr),
            "tiebreak" => judge_tiebreak(scn, tr),
            _ => judge_duel(scn, tr),
        };
        if scn.duts.len() >= 3 {
            for v in j.violations.iter_mut() {
                v.detail = format!("[three daemons] {}", v.detail);
            }
        }
        tag_escaped(j, scn)
    }
}
