//! C16 — TXT properties survive the trip unchanged.
//!
//! "trip" worlds: daemon A registers a service whose property list comes from a generator (key and
//! value shapes around every limit, every supported input type), daemon B browses the type on the
//! same simulated link; what B reports is compared with what A was given. The packets in between
//! are read by the independent codec. "raw" worlds: a scripted peer owns the instance and its TXT
//! RDATA is arbitrary bytes.

use super::common::*;
use super::txmodel::fullname_of;
use super::{Judged, Property, Tier};
use crate::rng::{mix, Rng};
use crate::scenario::*;
use crate::trace::*;
use crate::wire::{self, Name, RData, Rec};
use serde_json::json;

pub struct C16;

type Props = Vec<(String, Option<Vec<u8>>)>;

fn gen_props(rng: &mut Rng, via: &str) -> Props {
    let binary_ok = via == "vec";
    let unique_keys = via == "map" || via == "optmap";
    let n = match rng.below(8) {
        0 => 0,
        1 => 1,
        7 => 12 + rng.below(20),
        _ => 2 + rng.below(6),
    };
    let mut v: Props = vec![];
    for i in 0..n {
        let key: String = match rng.below(16) {
            0 => format!("Key{i}"),
            1 => format!("KEY{i}"),
            2 if !v.is_empty() && !unique_keys => v[rng.below(v.len() as u64) as usize].0.clone(), // duplicate, same case
            3 if !v.is_empty() && !unique_keys => v[rng.below(v.len() as u64) as usize].0.to_uppercase(), // duplicate, other case
            4 if !v.is_empty() && !unique_keys => v[rng.below(v.len() as u64) as usize].0.to_lowercase(),
            5 => format!("key with space {i}"),
            6 => format!("p!#$%&'()*+,-./:;<>?@[]^_`{{|}}~{i}"),
            7 => format!("{}{i}", "L".repeat(200 + rng.below(53) as usize)),
            8 if rng.below(3) == 0 => format!("ké{i}"),   // not ASCII: cannot be represented
            9 if rng.below(3) == 0 => format!("a=b{i}"),  // '=' in the key: cannot be represented
            10 => format!("\u{1}ctl{i}"),
            11 => format!("{i}"),
            _ => format!("k{i}"),
        };
        let room = 255usize.saturating_sub(key.len() + 1);
        let val: Option<Vec<u8>> = match rng.below(12) {
            0 | 1 => None,
            2 => Some(vec![]),
            3 => Some(b"a=b=c".to_vec()),
            4 if binary_ok => Some(vec![0, b'=', 0, 0xFF, 0xFE, b'=', 0]),
            5 if binary_ok => Some((0..rng.below(40)).map(|_| rng.below(256) as u8).collect()),
            // key=value exactly at, one below and one above the limit of one TXT string
            6 => Some(vec![if binary_ok && rng.bool() { 0xFE } else { b'v' }; room]),
            7 => Some(vec![b'v'; room.saturating_sub(1)]),
            8 if rng.below(3) == 0 => Some(vec![if binary_ok && rng.bool() { 0xFF } else { b'v' }; room + 1]),
            9 => Some("värde ✓".as_bytes().to_vec()),
            10 => Some(b"=".to_vec()),
            _ => Some(format!("value {i}").into_bytes()),
        };
        if unique_keys && v.iter().any(|(k, _)| k.eq_ignore_ascii_case(&key)) {
            continue;
        }
        v.push((key, val));
    }
    v
}

/// The list as the crate holds it after the conversion of the input type.
fn after_conversion(list: &Props, via: &str) -> Props {
    match via {
        "none" => vec![],
        "vec" => list.clone(),
        "slice" => {
            let mut out: Props = vec![];
            for (k, v) in list {
                if out.iter().any(|(e, _)| e.to_lowercase() == k.to_lowercase()) {
                    continue;
                }
                out.push((k.clone(), Some(v.clone().unwrap_or_default())));
            }
            out
        }
        _ => list.iter().map(|(k, v)| (k.clone(), Some(v.clone().unwrap_or_default()))).collect(),
    }
}

fn representable(list: &Props) -> bool {
    list.iter().all(|(k, v)| k.is_ascii() && !k.contains('=') && k.len() + v.as_ref().map(|x| x.len() + 1).unwrap_or(0) <= 255)
}

fn first_wins(list: &Props) -> Props {
    let mut out: Props = vec![];
    for (k, v) in list {
        if !out.iter().any(|(e, _)| e.to_lowercase() == k.to_lowercase()) {
            out.push((k.clone(), v.clone()));
        }
    }
    out
}

fn gen_raw_txt(rng: &mut Rng) -> Vec<u8> {
    let valid = |rng: &mut Rng| -> Vec<u8> { wire::txt_encode(&gen_props(rng, "vec").into_iter().filter(|(k, v)| k.len() + v.as_ref().map(|x| x.len() + 1).unwrap_or(0) <= 255).collect::<Vec<_>>()) };
    match rng.below(12) {
        0 => {
            let n = rng.below(600) as usize;
            rng.bytes(n)
        }
        1 => valid(rng),
        2 => {
            // last string cut short
            let mut b = valid(rng);
            let cut = rng.below(b.len() as u64 + 1) as usize;
            b.truncate(cut);
            b
        }
        3 => {
            // a zero-length string in the middle
            let mut b = valid(rng);
            b.push(0);
            b.extend(valid(rng));
            b
        }
        4 => {
            let mut b = vec![];
            for _ in 0..1 + rng.below(4) {
                b.push(255);
                b.extend(std::iter::repeat(b'x').take(255));
            }
            b
        }
        5 => vec![3, b'=', b'a', b'b', 1, b'=', 2, b'k', b'='],
        6 => vec![4, 0xFF, 0xFE, b'=', b'v', 3, b'o', b'k', b'='],
        7 => vec![2, b'a', b'=', 3, b'A', b'=', b'x', 1, b'a', 4, b'a', b'=', b'y', b'z'],
        8 => vec![0],
        9 => vec![],
        10 => {
            // length byte larger than what is left
            let mut b = valid(rng);
            b.push(200);
            b.extend_from_slice(b"short");
            b
        }
        _ => {
            let mut b = valid(rng);
            let n = b.len();
            if n > 0 {
                let i = rng.below(n as u64) as usize;
                b[i] = rng.below(256) as u8;
            }
            b
        }
    }
}

impl Property for C16 {
    fn id(&self) -> &'static str {
        "C16"
    }
    fn count(&self, tier: Tier) -> u64 {
        match tier {
            Tier::Quick => 1500,
            Tier::Thorough => 60_000,
        }
    }
    fn rule_text(&self) -> &'static str {
        "two families. 'trip' (2 of 3): two real daemons on one simulated link; A registers 1-2 services whose property lists come from a generator (0-30 entries; keys: mixed case, duplicates in the same and in another case, spaces, punctuation, control characters, 200-254 bytes, not ASCII, containing '='; values: none, empty, containing '=' and NUL, arbitrary bytes, UTF-8, sized so that key=value is 254 / 255 / 256 bytes) through every input type (Vec<TxtProperty>, &[(K,V)], HashMap, Option<HashMap>, None), B browses; strict and lossy-with-retransmission profiles. Rules: R1 a list is refused at creation exactly when an entry cannot be represented (key not ASCII or containing '=', key=value above 255 bytes); R2 the TXT RDATA A puts on the wire is the reference encoding of the list (every string <= 255 bytes, nothing cut); R3 B's ServiceResolved shows the same keys (case preserved), value bytes, order and none/empty distinction, first occurrence of a key only (maps: as a set); R4 every key is found again by B in upper and lower case. 'raw' (1 of 3): a scripted peer owns the instance and its TXT RDATA is arbitrary bytes (random, valid, cut short, zero-length string in the middle, 255-byte strings, leading '=', keys that are not UTF-8, duplicates, RDLENGTH 0, overlong length byte, one-byte mutations): the daemon survives (always-on invariant) and reports the reference decoding. Non-trivial = a world whose list has a boundary-size entry, a duplicate key, a value-less key next to an empty value, or raw bytes that are not a valid encoding; distinct by schedule signature."
    }
    fn assumptions(&self) -> Vec<&'static str> {
        vec![
            "the &[(K,V)] and HashMap input types cannot express 'no value' or arbitrary bytes (their values are strings): for them the model maps a value-less key to an empty value, as the types do",
            "entries with an empty key are carried but not judged for refusal (the statement does not say whether an empty key is representable)",
            "raw family: where the statement is silent (zero-length string in the middle, string running past the end, key that is not UTF-8) the reference decoder makes the same choice as RFC 6763 readers usually do: stop, stop, skip",
        ]
    }
    fn judges_after_death(&self) -> bool {
        true // R1 (refusal at creation) is decided before the daemon sees the service
    }
    fn expected_probes(&self) -> Vec<&'static str> {
        vec!["entry-of-255-bytes", "entry-of-256-bytes-refused", "duplicate-key", "duplicate-key-other-case", "no-value-and-empty-value", "binary-value", "via-vec", "via-slice", "via-map", "via-optmap", "raw-not-a-valid-encoding", "raw-zero-length-in-the-middle"]
    }

    fn gen(&self, seed: u64, index: u64, _tier: Tier) -> Scenario {
        let rs = mix(seed, index);
        let mut rng = Rng::new(rs, 0x16);
        if index % 3 == 2 {
            let mut s = Scenario::new("C16", "raw", rs);
            strict(&mut s);
            s.net.self_loop = false;
            s.duts.push(dut_v4(1, 10, 0));
            s.op(0, Op::SetIpCheck { d: 0, secs: HUGE_IP_CHECK_SECS });
            s.peers.push(peer_v4(1, 50, 0));
            let ty = "_raw._udp.local.";
            s.op(50, Op::Browse { d: 0, ty: ty.into(), slot: 10 });
            let txt = gen_raw_txt(&mut rng);
            let ir = instance_recs(ty, "Raw TXT", "rawhost.local.", 9, &["192.168.1.50"], &[], txt, 4500, 120);
            s.op(300 + rng.below(400), Op::PeerSend { p: 0, v4: true, sport: 5353, msg: announce(&ir.all()), to: Dest::Mcast });
            s.horizon_ms = 3000;
            s.sort_ops();
            return s;
        }
        let lossy = index % 9 == 4;
        let mut s = Scenario::new("C16", if lossy { "trip-lossy" } else { "trip" }, rs);
        strict(&mut s);
        if lossy {
            s.net.drop_pm = 250;
            s.net.dup_pm = 100;
        }
        s.net.self_loop = rng.bool();
        s.duts.push(dut_v4(1, 10, 0));
        s.duts.push(dut_v4(1, 11, 0));
        s.op(0, Op::SetIpCheck { d: 0, secs: HUGE_IP_CHECK_SECS });
        s.op(0, Op::SetIpCheck { d: 1, secs: HUGE_IP_CHECK_SECS });
        let ty = ["_txt._tcp.local.", "_props._udp.local."][rng.below(2) as usize];
        s.op(20 + rng.below(100), Op::Browse { d: 1, ty: ty.into(), slot: 10 });
        let n_svc = 1 + rng.below(2);
        let mut t = 200 + rng.below(300);
        for k in 0..n_svc {
            let via = ["vec", "vec", "slice", "map", "optmap", "none"][rng.below(6) as usize];
            let txt = if via == "none" { vec![] } else { gen_props(&mut rng, via) };
            let spec = SvcSpec { ty: ty.into(), instance: format!("Props {k}"), host: format!("txthost{k}.local."), addrs: vec!["192.168.1.10".into()], port: 7000 + k as u16, txt, addr_auto: false, probe: rng.below(3) == 0, intfs: None, link_local_only: false, txt_via: Some(via.into()) };
            s.op(t, Op::Register { d: 0, svc: spec });
            t += 100 + rng.below(1500);
        }
        s.horizon_ms = t + if lossy { 20_000 } else { 5000 };
        s.params = json!({});
        s.sort_ops();
        s
    }

    fn judge(&self, scn: &Scenario, tr: &Trace) -> Judged {
        let mut j = Judged::default();
        if scn.family == "raw" {
            let Some(txt) = scn.ops.iter().find_map(|o| match &o.op {
                Op::PeerSend { msg, .. } => msg.answers.iter().find(|r| r.ty == wire::T_TXT).map(|r| match &r.rdata {
                    RData::Txt(b) => b.clone(),
                    _ => vec![],
                }),
                _ => None,
            }) else {
                return j;
            };
            let expect = wire::txt_decode_unique(&txt);
            let valid = wire::txt_encode(&expect) == txt;
            if !valid {
                j.probe("raw-not-a-valid-encoding");
                j.nontrivial = true;
            }
            {
                // a zero-length string that is not the last byte
                let mut i = 0;
                while i < txt.len() {
                    let l = txt[i] as usize;
                    if l == 0 {
                        if i + 1 < txt.len() {
                            j.probe("raw-zero-length-in-the-middle");
                        }
                        break;
                    }
                    i += 1 + l;
                }
            }
            let delivered = tr.rx.iter().any(|r| r.d == 0 && r.step.is_some() && r.msg.as_ref().map(|m| m.is_response()).unwrap_or(false));
            if !delivered {
                j.abstained += 1;
                return j;
            }
            j.judgements += 1;
            let resolved: Vec<&ResolvedView> = tr.events.iter().filter(|e| e.d == 0 && e.slot == 10).filter_map(|e| if let EvKind::Resolved(r) = &e.ev { Some(&**r) } else { None }).collect();
            match resolved.last() {
                None => {
                    if daemon_alive_at_end(tr, 0) {
                        j.fail("C16-R5", format!("an instance whose TXT RDATA is {} was never resolved although PTR, SRV, TXT and address were delivered", wire::hex(&txt[..txt.len().min(80)])));
                    }
                }
                Some(r) => {
                    if r.txt != expect {
                        j.fail("C16-R5", format!("TXT RDATA {} decodes (reference) to {:?} but ServiceResolved shows {:?}", wire::hex(&txt[..txt.len().min(120)]), expect, r.txt));
                    }
                    if !r.lookup_mismatch.is_empty() {
                        j.fail("C16-R4", format!("case-insensitive look-up fails for keys {:?} of {:?}", r.lookup_mismatch, r.txt));
                    }
                }
            }
            return j;
        }
        // ---- trip
        for (oi, o) in scn.ops.iter().enumerate() {
            let Op::Register { d: 0, svc } = &o.op else { continue };
            let via = svc.txt_via.as_deref().unwrap_or("vec");
            j.probe(&format!("via-{via}"));
            let Some(api) = api_of_op(tr, oi) else { continue };
            let held = after_conversion(&svc.txt, via);
            let has_empty_key = held.iter().any(|(k, _)| k.is_empty());
            let ok = representable(&held);
            for (k, v) in &held {
                let len = k.len() + v.as_ref().map(|x| x.len() + 1).unwrap_or(0);
                if len == 255 {
                    j.probe("entry-of-255-bytes");
                    j.nontrivial = true;
                }
                if len == 256 {
                    j.probe("entry-of-256-bytes-refused");
                    j.nontrivial = true;
                }
                if v.as_ref().map(|x| x.iter().any(|b| *b == 0 || *b >= 0x80)).unwrap_or(false) {
                    j.probe("binary-value");
                }
            }
            for (i, (k, _)) in svc.txt.iter().enumerate() {
                if svc.txt[..i].iter().any(|(e, _)| e == k) {
                    j.probe("duplicate-key");
                    j.nontrivial = true;
                } else if svc.txt[..i].iter().any(|(e, _)| e.eq_ignore_ascii_case(k)) {
                    j.probe("duplicate-key-other-case");
                    j.nontrivial = true;
                }
            }
            if held.iter().any(|(_, v)| v.is_none()) && held.iter().any(|(_, v)| v.as_ref().map(|x| x.is_empty()).unwrap_or(false)) {
                j.probe("no-value-and-empty-value");
                j.nontrivial = true;
            }
            // R1
            j.judgements += 1;
            match (&api.outcome, ok) {
                (ApiOutcome::Ok, true) => {}
                (ApiOutcome::InfoRefused(_), false) => continue,
                (ApiOutcome::Ok, false) => {
                    if !has_empty_key {
                        let bad = held.iter().find(|(k, v)| !(k.is_ascii() && !k.contains('=') && k.len() + v.as_ref().map(|x| x.len() + 1).unwrap_or(0) <= 255));
                        j.fail("C16-R1", format!("a property list with an entry that cannot be represented was accepted (input type {via}): key {:?} ({} bytes), value of {:?} bytes", bad.map(|b| &b.0), bad.map(|b| b.0.len()).unwrap_or(0), bad.and_then(|b| b.1.as_ref().map(|v| v.len()))));
                    }
                    continue;
                }
                (ApiOutcome::InfoRefused(e), true) => {
                    if !has_empty_key {
                        j.fail("C16-R1", format!("a representable property list ({} entries, input type {via}) was refused: {e}", held.len()));
                    }
                    continue;
                }
                _ => continue,
            }
            let full = fullname_of(svc);
            let ordered = via == "vec" || via == "slice" || via == "none";
            let total: usize = held.iter().map(|(k, v)| 1 + k.len() + v.as_ref().map(|x| x.len() + 1).unwrap_or(0)).sum();
            if total > 8000 {
                j.abstained += 1;
                continue;
            }
            // R2: on the wire
            let want_rdata = wire::txt_encode(&held);
            let strings = |b: &[u8]| -> Option<Vec<Vec<u8>>> {
                let mut out = vec![];
                let mut i = 0;
                while i < b.len() {
                    let l = b[i] as usize;
                    if i + 1 + l > b.len() {
                        return None;
                    }
                    out.push(b[i + 1..i + 1 + l].to_vec());
                    i += 1 + l;
                }
                Some(out)
            };
            let mut on_wire = false;
            for x in tr.tx.iter().filter(|x| x.d == 0) {
                let Some(m) = &x.msg else { continue };
                if !m.is_response() {
                    continue;
                }
                for r in m.all_records().filter(|r| r.ty == wire::T_TXT && r.name.0 == full.0) {
                    let RData::Txt(b) = &r.rdata else { continue };
                    on_wire = true;
                    j.judgements += 1;
                    let same = if ordered {
                        *b == want_rdata
                    } else {
                        let (mut a, mut w) = (strings(b).unwrap_or_default(), strings(&want_rdata).unwrap_or_default());
                        a.sort();
                        w.sort();
                        strings(b).is_some() && a == w
                    };
                    if !same {
                        j.fail("C16-R2", format!("TXT of {:?} on the wire at t={} is {} ({} bytes); the reference encoding of the accepted list (input type {via}) is {} ({} bytes)", full, x.t, wire::hex(&b[..b.len().min(100)]), b.len(), wire::hex(&want_rdata[..want_rdata.len().min(100)]), want_rdata.len()));
                        break;
                    }
                }
                if !j.violations.is_empty() {
                    break;
                }
            }
            // R3 / R4: at the browser
            let expect = first_wins(&held);
            let evs: Vec<&ResolvedView> = tr.events.iter().filter(|e| e.d == 1 && e.slot == 10).filter_map(|e| if let EvKind::Resolved(r) = &e.ev { Some(&**r) } else { None }).filter(|r| Name::from_dotted(&r.fullname).eq_ci(&full)).collect();
            let renamed = tr.events.iter().any(|e| matches!(e.ev, EvKind::MonNameChange { .. }));
            if evs.is_empty() {
                if on_wire && scn.net.drop_pm == 0 && !renamed && daemon_alive_at_end(tr, 1) && daemon_alive_at_end(tr, 0) {
                    j.fail("C16-R3", format!("{:?} was announced with {} properties but the browsing daemon never resolved it", full, held.len()));
                }
                continue;
            }
            for r in evs {
                j.judgements += 1;
                let same = if ordered {
                    r.txt == expect
                } else {
                    let (mut a, mut b) = (r.txt.clone(), expect.clone());
                    a.sort();
                    b.sort();
                    a == b
                };
                if !same {
                    let first_diff = r.txt.iter().zip(expect.iter()).position(|(a, b)| a != b).unwrap_or(r.txt.len().min(expect.len()));
                    j.fail("C16-R3", format!("properties of {:?} (input type {via}): registered {} entries, the browser sees {}; first difference at entry {}: registered {:?}, seen {:?}", full, expect.len(), r.txt.len(), first_diff, expect.get(first_diff).map(|(k, v)| (k, v.as_ref().map(|x| wire::hex(&x[..x.len().min(24)])))), r.txt.get(first_diff).map(|(k, v)| (k, v.as_ref().map(|x| wire::hex(&x[..x.len().min(24)]))))));
                    break;
                }
                if !r.lookup_mismatch.is_empty() {
                    j.fail("C16-R4", format!("case-insensitive look-up fails for keys {:?}", r.lookup_mismatch));
                    break;
                }
            }
        }
        j
    }
}

#[allow(dead_code)]
fn _unused(_: &Rec) {}
