//! C02 — every emitted packet parses back to exactly the records that were added.
//!
//! Three families:
//!  * "resp": a DUT registers 1..6 (overflow worlds: 90..170) services whose instance, host and
//!    type names come from a hostile label alphabet; a peer asks every kind of question. Every
//!    packet the DUT puts on the wire is judged (probes, announcements, responses, goodbyes).
//!  * "ka": a DUT browses a type of which a peer announces 1..8 (overflow worlds: 150..420)
//!    instances; the DUT's queries carry them as known answers.
//!  * "facade": the encoder alone, through the guarded facade `verif::codec::encode`: seeded
//!    messages (all sections, sizes from empty to several packets, sizes swept across the packet
//!    limit). This family is input generation on a pure function, not simulation; it is here because
//!    the multi-packet (TC) path of the encoder cannot be reached through the daemon (no query it
//!    builds has additionals). DESIGN.md 7.2 says so.

use super::common::*;
use super::model::*;
use super::txmodel::*;
use super::{Judged, Property, Tier};
use crate::rng::{mix, Rng};
use crate::scenario::*;
use crate::trace::*;
use crate::wire::{self, Msg, Name, Question, RData, Rec};
use mdns_sd::verif::codec;
use serde_json::json;

pub struct C02;

const META_NAME: &str = "_services._dns-sd._udp.local.";

/// A label of 1..=63 bytes of valid UTF-8 from the hostile alphabet.
pub fn hostile_label(rng: &mut Rng, k: u64) -> Vec<u8> {
    let s: String = match rng.below(12) {
        0 => format!("Printer{k}"),
        1 => format!("My Printer {k}"),
        2 => format!("Office.Printer{k}"),
        3 => format!("back\\slash{k}"),
        4 => format!("tail{k}\\"),
        5 => format!("Café{k} 漢字"),
        6 => format!("{k}{}", "x".repeat(63 - k.to_string().len())),
        7 => format!("{k}{}é", "y".repeat(61 - k.to_string().len())),
        8 => format!(".lead{k}"),
        9 => format!(".\\.\\{k}"),
        10 => format!("PRINTER{k}"),
        _ => format!("a.b{k}"),
    };
    s.into_bytes()
}

fn label_str(l: &[u8]) -> String {
    String::from_utf8_lossy(l).to_string()
}

// ------------------------------------------------------------------------------------------------
// shared packet oracle

/// R1 + R4 on one emitted packet. Returns the strict parse.
fn packet_rules(j: &mut Judged, bytes: &[u8], what: &str) -> Option<Msg> {
    j.judgements += 1;
    if bytes.len() > wire::MAX_PKT {
        j.fail("C02-R1", format!("{what}: packet of {} bytes exceeds the limit of {}", bytes.len(), wire::MAX_PKT));
        return None;
    }
    let m = match wire::parse_strict(bytes) {
        Ok(m) => m,
        Err(e) => {
            j.fail("C02-R1", format!("{what}: the independent parser rejects the packet ({e}); {} bytes, header {}", bytes.len(), wire::hex(&bytes[..bytes.len().min(12)])));
            return None;
        }
    };
    for r in m.all_records() {
        if r.name.wire_len() > 255 {
            j.fail("C02-R1", format!("{what}: owner name of {} bytes on the wire", r.name.wire_len()));
        }
    }
    if let Ok((_, info)) = wire::parse_info(bytes) {
        if info.pointers > 0 {
            j.probe("compression-pointer-on-the-wire");
        }
    }
    // R4: the crate's own decoder reads the same content
    match codec::decode(bytes.to_vec()) {
        Err(e) => j.fail("C02-R4", format!("{what}: the crate's decoder rejects a packet its encoder produced ({e})")),
        Ok(v) => {
            let is_resp = m.is_response();
            let mut bad: Option<String> = None;
            if v.questions.len() != m.questions.len() || v.questions.iter().zip(m.questions.iter()).any(|(a, b)| a.0 != b.name.dotted() || a.1 != b.ty) {
                bad = Some(format!("questions: crate {:?} vs wire {:?}", v.questions, m.questions));
            }
            let mut cmp = |sec: &str, a: &Vec<codec::RecordView>, b: &Vec<Rec>| {
                let b: Vec<&Rec> = b.iter().filter(|x| matches!(x.ty, wire::T_A | wire::T_AAAA | wire::T_PTR | wire::T_CNAME | wire::T_SRV | wire::T_TXT | wire::T_HINFO | wire::T_NSEC)).collect();
                if a.len() != b.len() {
                    bad = Some(format!("{sec}: crate decodes {} records, the wire holds {}", a.len(), b.len()));
                    return;
                }
                for (x, y) in a.iter().zip(b.iter()) {
                    let ttl_y = if y.ttl == 0 && is_resp { 1 } else { y.ttl };
                    let head = x.name == y.name.dotted() && x.ty == y.ty && x.class == (y.class & 0x7FFF) && x.cache_flush == (y.class & 0x8000 != 0) && x.ttl == ttl_y;
                    let data = match (&x.rdata, &y.rdata) {
                        (codec::RDataView::Addr(ip), RData::A(b4)) => *ip == std::net::IpAddr::from(*b4),
                        (codec::RDataView::Addr(ip), RData::AAAA(b6)) => *ip == std::net::IpAddr::from(*b6),
                        (codec::RDataView::Ptr(s), RData::Ptr(n)) => *s == n.dotted(),
                        (codec::RDataView::Srv { priority, weight, port, host }, RData::Srv { prio, weight: w2, port: p2, target }) => priority == prio && weight == w2 && port == p2 && *host == target.dotted(),
                        (codec::RDataView::Txt(t), RData::Txt(t2)) => t == t2,
                        (codec::RDataView::NSec { next_domain, type_bitmap }, RData::Nsec { next, bitmap }) => *next_domain == next.dotted() && bitmap.len() >= 2 && type_bitmap[..] == bitmap[2..],
                        _ => false,
                    };
                    if !head || !data {
                        bad = Some(format!("{sec}: crate decodes {:?} where the wire holds {:?}", x, y));
                        return;
                    }
                }
            };
            cmp("answers", &v.answers, &m.answers);
            cmp("authorities", &v.authorities, &m.authorities);
            cmp("additionals", &v.additionals, &m.additionals);
            if let Some(b) = bad {
                j.fail("C02-R4", format!("{what}: {b}"));
            }
        }
    }
    Some(m)
}

fn uncompressed_size(r: &Rec) -> usize {
    let rd = match &r.rdata {
        RData::A(_) => 4,
        RData::AAAA(_) => 16,
        RData::Ptr(n) => n.wire_len(),
        RData::Srv { target, .. } => 6 + target.wire_len(),
        RData::Txt(t) => t.len(),
        RData::Nsec { next, bitmap } => next.wire_len() + bitmap.len(),
        RData::Hinfo { cpu, os } => 2 + cpu.len() + os.len(),
        RData::Other(b) => b.len(),
    };
    r.name.wire_len() + 10 + rd
}

/// exact equality: label bytes (case-sensitive), type, class incl. cache-flush, TTL, RDATA incl. embedded names
fn rec_exact(a: &Rec, b: &Rec) -> bool {
    a.name.0 == b.name.0 && a.ty == b.ty && a.class == b.class && a.ttl == b.ttl && rdata_exact(&a.rdata, &b.rdata)
}

fn rdata_exact(a: &RData, b: &RData) -> bool {
    match (a, b) {
        (RData::Ptr(x), RData::Ptr(y)) => x.0 == y.0,
        (RData::Srv { prio: p1, weight: w1, port: o1, target: t1 }, RData::Srv { prio: p2, weight: w2, port: o2, target: t2 }) => p1 == p2 && w1 == w2 && o1 == o2 && t1.0 == t2.0,
        (RData::Nsec { next: n1, bitmap: b1 }, RData::Nsec { next: n2, bitmap: b2 }) => n1.0 == n2.0 && b1 == b2,
        (x, y) => x == y,
    }
}

// ------------------------------------------------------------------------------------------------
// facade family

fn gen_facade_msg(rng: &mut Rng, index: u64) -> Msg {
    // name pool: hostile labels over suffixes that share tails partly, case variants, and the pair
    // (one label "a.b", two labels "a" "b")
    let suffixes: Vec<Vec<&str>> = vec![vec!["local"], vec!["_tcp", "local"], vec!["_http", "_tcp", "local"], vec!["_HTTP", "_tcp", "local"], vec!["_printer", "_sub", "_http", "_tcp", "local"], vec!["_udp", "local"], vec!["_http", "_udp", "local"], vec!["LOCAL"]];
    let mut pool: Vec<Name> = vec![];
    let n_names = 2 + rng.below(8) as usize;
    for k in 0..n_names {
        let suf = &suffixes[rng.below(suffixes.len() as u64) as usize];
        let mut labels: Vec<Vec<u8>> = vec![];
        for _ in 0..rng.below(3) {
            let kk = rng.below(3);
            labels.push(hostile_label(rng, kk));
        }
        if labels.is_empty() && rng.bool() {
            labels.push(hostile_label(rng, k as u64));
        }
        labels.extend(suf.iter().map(|s| s.as_bytes().to_vec()));
        let n = Name(labels);
        if n.wire_len() <= 255 {
            pool.push(n);
        }
    }
    if rng.below(3) == 0 {
        // the same text as one label and as two labels
        let suf = &suffixes[rng.below(3) as usize];
        let mut one = vec![b"a.b".to_vec()];
        let mut two = vec![b"a".to_vec(), b"b".to_vec()];
        one.extend(suf.iter().map(|s| s.as_bytes().to_vec()));
        two.extend(suf.iter().map(|s| s.as_bytes().to_vec()));
        if rng.bool() {
            pool.push(Name(one));
            pool.push(Name(two));
        } else {
            pool.push(Name(two));
            pool.push(Name(one));
        }
    }
    if rng.below(4) == 0 {
        // case variants of a pooled name
        let n = pool[rng.below(pool.len() as u64) as usize].clone();
        pool.push(Name(n.0.iter().map(|l| l.to_ascii_uppercase()).collect()));
        pool.push(n.lower());
    }
    if pool.is_empty() {
        pool.push(Name::from_dotted("x.local."));
    }
    let pick = |rng: &mut Rng, pool: &Vec<Name>| pool[rng.below(pool.len() as u64) as usize].clone();
    let ttl_of = |rng: &mut Rng| -> u32 {
        match rng.below(8) {
            0 => 0,
            1 => 1,
            2 => 120,
            3 => 4500,
            4 => u32::MAX,
            5 => 0x8000_0000,
            _ => rng.next_u64() as u32,
        }
    };
    let size_class = index % 8;
    let rec_of = |rng: &mut Rng, big_txt: bool| -> Rec {
        let name = pick(rng, &pool);
        let ttl = ttl_of(rng);
        let flush = rng.bool();
        match rng.below(5) {
            0 => Rec::a(&name, [10, rng.below(256) as u8, rng.below(256) as u8, rng.below(256) as u8], ttl, flush),
            1 => {
                let mut ip = [0u8; 16];
                ip[0] = 0xfe;
                ip[1] = 0x80;
                ip[15] = rng.below(256) as u8;
                Rec::aaaa(&name, ip, ttl, flush)
            }
            2 => {
                let mut r = Rec::ptr(&name, &pick(rng, &pool), ttl);
                if flush {
                    r.class |= wire::FLUSH;
                }
                r
            }
            3 => Rec::srv(&name, &pick(rng, &pool), rng.below(65536) as u16, ttl, flush),
            _ => {
                let len = if big_txt { 200 + rng.below(1300) as usize } else { rng.below(40) as usize };
                // a valid TXT body: strings of <= 255 bytes
                let mut body = vec![];
                while body.len() < len {
                    let l = (len - body.len()).min(1 + rng.below(255) as usize).min(256) - 1;
                    body.push(l as u8);
                    for _ in 0..l {
                        body.push(b'a' + rng.below(26) as u8);
                    }
                }
                if body.is_empty() {
                    body.push(0);
                }
                Rec::txt(&name, body, ttl, flush)
            }
        }
    };
    let response = rng.below(3) != 0;
    let mut m = if response { Msg::response() } else { Msg::query() };
    if !response || rng.below(4) == 0 {
        for _ in 0..1 + rng.below(3) {
            let n = pick(rng, &pool);
            m.questions.push(Question { name: n, ty: [wire::T_PTR, wire::T_ANY, wire::T_A, wire::T_SRV, wire::T_TXT, wire::T_AAAA][rng.below(6) as usize], class: 1 });
        }
    }
    let (n_an, n_ns, n_ad, big) = match size_class {
        0 => (0, 0, 0, false),
        1 | 2 => (1 + rng.below(6), rng.below(3), rng.below(4), false),
        3 => (10 + rng.below(60), rng.below(4), rng.below(30), false),
        4 => (5 + rng.below(12), 0, 3 + rng.below(12), true),   // around one packet
        5 => (300 + rng.below(400), 0, rng.below(100), false),  // many small records, > 1 packet
        6 => (rng.below(6), 0, 8 + rng.below(30), true),        // additionals overflow (queries: TC continuation)
        _ => (4 + rng.below(6), rng.below(3), 2 + rng.below(6), true),
    };
    for _ in 0..n_an {
        m.answers.push(rec_of(rng, big));
    }
    if size_class == 7 && rng.bool() {
        // roll-back shape: the packet is filled close to the limit, a record under a not yet used name does not fit, and
        // smaller records under that name (or under a name that shares its suffix) follow
        let filler = pick(rng, &pool);
        let fresh = Name({ let mut l = vec![format!("fresh{}", rng.below(100)).into_bytes()]; l.extend(pick(rng, &pool).0); l });
        if fresh.wire_len() <= 255 {
            let body = |n: usize| { let mut b = vec![]; let mut left = n; while left > 0 { let l = left.min(256) - 1; b.push(l as u8); b.extend(std::iter::repeat(b'f').take(l)); left -= l + 1; } b };
            let fill_to = 7600 + rng.below(1300) as usize;
            let mut size = 12 + m.all_records().map(uncompressed_size).sum::<usize>();
            while size < fill_to {
                let n = (fill_to - size).min(1200).max(20);
                let r = Rec::txt(&filler, body(n), 4500, true);
                size += uncompressed_size(&r);
                m.answers.push(r);
            }
            m.answers.push(Rec::txt(&fresh, body(1500), 120, true));
            m.answers.push(Rec::a(&fresh, [10, 1, 2, 3], 120, true));
            m.answers.push(Rec::srv(&filler, &fresh, 80, 120, true));
            let mut sub = vec![b"x".to_vec()];
            sub.extend(fresh.0.iter().cloned());
            if Name(sub.clone()).wire_len() <= 255 {
                m.answers.push(Rec::a(&Name(sub), [10, 1, 2, 4], 120, true));
            }
        }
    }
    for _ in 0..n_ns {
        m.authorities.push(rec_of(rng, false));
    }
    for _ in 0..n_ad {
        m.additionals.push(rec_of(rng, big));
    }
    m
}

fn spec_of(m: &Msg) -> codec::MessageSpec {
    let rs = |r: &Rec| -> codec::RecordSpec {
        let rdata = match &r.rdata {
            RData::A(b) => codec::RDataView::Addr(std::net::IpAddr::from(*b)),
            RData::AAAA(b) => codec::RDataView::Addr(std::net::IpAddr::from(*b)),
            RData::Ptr(n) => codec::RDataView::Ptr(n.escaped()),
            RData::Srv { prio, weight, port, target } => codec::RDataView::Srv { priority: *prio, weight: *weight, port: *port, host: target.escaped() },
            RData::Txt(t) => codec::RDataView::Txt(t.clone()),
            RData::Nsec { next, bitmap } => codec::RDataView::NSec { next_domain: next.escaped(), type_bitmap: bitmap[2.min(bitmap.len())..].to_vec() },
            _ => codec::RDataView::Other,
        };
        codec::RecordSpec { name: r.name.escaped(), class: r.class, ttl: r.ttl, rdata }
    };
    codec::MessageSpec {
        flags: m.flags,
        questions: m.questions.iter().map(|q| (q.name.escaped(), q.ty)).collect(),
        answers: m.answers.iter().map(rs).collect(),
        authorities: m.authorities.iter().map(rs).collect(),
        additionals: m.additionals.iter().map(rs).collect(),
    }
}

fn judge_facade(scn: &Scenario) -> Judged {
    let mut j = Judged::default();
    let Some(mv) = scn.params.get("msg") else { return j };
    let Ok(mut m) = serde_json::from_value::<Msg>(mv.clone()) else { return j };
    // boundary sweep: a last TXT record sized so that the packet would end at limit + delta
    if let Some(delta) = scn.params.get("end_at_limit_plus").and_then(|v| v.as_i64()) {
        let in_additionals = scn.params.get("sweep_in_additionals").and_then(|v| v.as_bool()).unwrap_or(false);
        let base = codec::encode(&spec_of(&m));
        if base.len() == 1 && !m.answers.is_empty() {
            let s = base[0].len() as i64;
            let owner = m.answers[0].name.clone();
            // owner is compressed to a 2-byte pointer: record = 2 + 10 + len
            let len = wire::MAX_PKT as i64 + delta - s - 12;
            if len >= 1 && len < 60_000 {
                let mut body = vec![];
                let mut left = len as usize;
                while left > 0 {
                    let l = left.min(256) - 1;
                    body.push(l as u8);
                    body.extend(std::iter::repeat(b'z').take(l));
                    left -= l + 1;
                }
                let r = Rec::txt(&owner, body, 4500, true);
                if in_additionals {
                    m.additionals.push(r);
                } else {
                    m.answers.push(r);
                }
                j.probe("record-ends-near-the-limit");
            }
        }
    }
    let packets = codec::encode(&spec_of(&m));
    if std::env::var("VERIF_DUMP").is_ok() {
        for p in &packets {
            eprintln!("packet {} bytes: {}", p.len(), wire::hex(p));
            eprintln!("{:?}", wire::parse(p).map(|m| wire::summarize(&m)));
        }
    }
    j.judgements += 1;
    if packets.is_empty() {
        j.fail("C02-R1", "the encoder produced no packet".into());
        return j;
    }
    if packets.len() > 1 {
        j.probe("message-split-into-packets");
        j.nontrivial = true;
    }
    let mut seen_an: Vec<Rec> = vec![];
    let mut seen_ns: Vec<Rec> = vec![];
    let mut seen_ad: Vec<Rec> = vec![];
    let mut last_size = 0;
    for (k, p) in packets.iter().enumerate() {
        let Some(pm) = packet_rules(&mut j, p, &format!("packet {} of {}", k + 1, packets.len())) else { return j };
        let last = k + 1 == packets.len();
        // R3: TC on every packet but the last
        if !last && pm.flags & wire::TC == 0 {
            j.fail("C02-R3", format!("packet {} of {} does not have TC set", k + 1, packets.len()));
        }
        if last && pm.flags & wire::TC != 0 {
            j.fail("C02-R3", format!("the last packet ({} of {}) has TC set", k + 1, packets.len()));
        }
        if pm.flags & !wire::TC != m.flags & !wire::TC {
            j.fail("C02-R2", format!("flags {:#06x} on the wire, {:#06x} were given", pm.flags, m.flags));
        }
        if k == 0 {
            let same = pm.questions.len() == m.questions.len() && pm.questions.iter().zip(m.questions.iter()).all(|(a, b)| a.name.0 == b.name.0 && a.ty == b.ty && a.class == b.class);
            if !same {
                j.fail("C02-R2", format!("questions on the wire {:?} differ from the questions added {:?}", pm.questions, m.questions));
            }
        } else if !pm.questions.is_empty() {
            j.fail("C02-R2", format!("continuation packet {} repeats questions", k + 1));
        }
        if pm.all_records().any(|r| r.name.0.iter().any(|l| l.contains(&b'.') || l.contains(&b'\\'))) {
            j.probe("escaped-label-on-the-wire");
            j.nontrivial = true;
        }
        seen_an.extend(pm.answers.iter().cloned());
        seen_ns.extend(pm.authorities.iter().cloned());
        seen_ad.extend(pm.additionals.iter().cloned());
        last_size = p.len();
    }
    // R2: per section the wire sequence is a subsequence of what was added (exact records, order kept)
    let mut missing: Vec<&Rec> = vec![];
    for (sec, added, seen) in [("answers", &m.answers, &seen_an), ("authorities", &m.authorities, &seen_ns), ("additionals", &m.additionals, &seen_ad)] {
        let mut i = 0;
        for s in seen.iter() {
            let mut found = false;
            while i < added.len() {
                if rec_exact(&added[i], s) {
                    found = true;
                    i += 1;
                    break;
                }
                missing.push(&added[i]);
                i += 1;
            }
            if !found {
                let near = added.iter().find(|a| a.ty == s.ty && a.name.eq_ci(&s.name));
                j.fail("C02-R2", format!("{sec}: the wire holds {:?}, which is not (in order) among the records added; closest added record: {:?}", s, near));
                return j;
            }
        }
        while i < added.len() {
            missing.push(&added[i]);
            i += 1;
        }
    }
    if !missing.is_empty() {
        j.probe("record-left-out");
        j.nontrivial = true;
        // R3: a record is left out only if it does not fit: it certainly fits when the (last) packet still has room for
        // its uncompressed form
        // (the additionals of a response are optional: the encoder stops at the first one that does not fit, so only the
        // first missing additional of a response is judged; answers and authorities are judged one by one)
        let first_missing_additional = missing.iter().position(|r| m.additionals.iter().any(|a| std::ptr::eq(a, *r)));
        for (mi, r) in missing.iter().enumerate() {
            let need = uncompressed_size(r);
            let is_additional = m.additionals.iter().any(|a| std::ptr::eq(a, *r));
            if m.is_response() && is_additional && Some(mi) != first_missing_additional {
                continue;
            }
            if packets.len() == 1 && last_size + need <= wire::MAX_PKT {
                j.fail("C02-R3", format!("{:?} ({} bytes uncompressed) was left out although the packet has {} bytes and the limit is {}", r, need, last_size, wire::MAX_PKT));
                break;
            }
            if !m.is_response() && m.additionals.iter().any(|a| rec_exact(a, r)) && need + 12 <= wire::MAX_PKT && !m.answers.iter().any(|a| rec_exact(a, r)) {
                j.fail("C02-R3", format!("additional {:?} of a query was neither sent nor carried into a following packet", r));
                break;
            }
        }
    }
    if m.all_records().count() > 0 {
        j.nontrivial = true;
    }
    j
}

// ------------------------------------------------------------------------------------------------
// resp family

fn gen_resp(rs: u64, index: u64, tier: Tier) -> Scenario {
    let mut rng = Rng::new(rs, 0x02);
    let overflow = index % 8 == 5;
    let mut s = Scenario::new("C02", if overflow { "resp-overflow" } else { "resp" }, rs);
    strict(&mut s);
    s.net.self_loop = false;
    let dual = rng.below(3) == 0;
    s.duts.push(if dual { dut_dual(1, 10, 0) } else { dut_v4(1, 10, 0) });
    s.op(0, Op::SetIpCheck { d: 0, secs: HUGE_IP_CHECK_SECS });
    s.op(0, Op::Monitor { d: 0, slot: 1 });
    s.op(0, Op::SetNameLenMax { d: 0, n: 255 });
    s.peers.push(if dual { peer_dual(1, 77, 0) } else { peer_v4(1, 77, 0) });
    let types = ["_http._tcp.local.", "_HTTP._tcp.local.", "_printer._sub._http._tcp.local.", "_ipp._udp.local.", "_Scan._sub._ipp._udp.local."];
    let n_svc = if overflow {
        match tier {
            Tier::Quick => 90 + rng.below(60) as usize,
            Tier::Thorough => 90 + rng.below(90) as usize,
        }
    } else {
        1 + rng.below(6) as usize
    };
    let base_ty = types[rng.below(types.len() as u64) as usize];
    let hosts = ["PrintServer.local.", "printserver.local.", "Café-Host.local.", "h.local.", "a.b._http._tcp.local."];
    let mut specs: Vec<SvcSpec> = vec![];
    let mut t = 50 + rng.below(200);
    for k in 0..n_svc {
        let ty = if overflow || rng.below(3) != 0 { base_ty.to_string() } else { types[rng.below(types.len() as u64) as usize].to_string() };
        let mut label = label_str(&hostile_label(&mut rng, k as u64));
        if overflow && rng.below(4) != 0 {
            // long labels so that the PTR list passes the packet limit; lengths vary so that records end at every
            // offset relative to the limit
            let want = 40 + rng.below(24) as usize;
            while label.len() < want {
                label.push('w');
            }
            while label.len() > 63 {
                label.pop();
            }
        }
        if specs.iter().any(|x: &SvcSpec| x.instance.eq_ignore_ascii_case(&label) ) {
            label = format!("{k}-{label}");
            while label.len() > 63 {
                label.pop();
            }
        }
        let host = if overflow { hosts[rng.below(2) as usize].to_string() } else if rng.below(3) == 0 { format!("{}.local.", label_str(&hostile_label(&mut rng, 1)).replace('.', "-").replace('\\', "_")) } else { hosts[rng.below(hosts.len() as u64) as usize].to_string() };
        // hosts shared between services carry one address set
        let addrs = if dual { vec!["192.168.1.10".to_string(), "fe80::1:a".to_string()] } else { vec!["192.168.1.10".to_string()] };
        let txt: Vec<(String, Option<Vec<u8>>)> = match rng.below(if overflow { 2 } else { 5 }) {
            0 => vec![],
            1 => vec![("k".into(), Some(format!("v{k}").into_bytes()))],
            2 => vec![("big".into(), Some(vec![b'q'; 251]))],
            3 => (0..10 + rng.below(20)).map(|i| (format!("key{i}"), Some(vec![b'a' + (i % 26) as u8; 100 + rng.below(140) as usize]))).collect(),
            _ => vec![("A".into(), Some(b"1".to_vec())), ("flag".into(), None), ("e".into(), Some(vec![]))],
        };
        let spec = SvcSpec { ty, instance: label, host, addrs, port: 1000 + k as u16, txt, addr_auto: false, probe: !overflow && rng.below(3) == 0, intfs: None, link_local_only: false, txt_via: None };
        s.op(t, Op::Register { d: 0, svc: spec.clone() });
        specs.push(spec);
        t += if overflow { 3 } else { 20 + rng.below(300) };
    }
    let settle = t + 3200;
    // questions
    let mut qs: Vec<Vec<Question>> = vec![];
    let q = |n: &Name, ty: u16| Question { name: n.clone(), ty, class: 1 };
    let tyn = Name::from_dotted(&split_sub(base_ty).0);
    qs.push(vec![q(&tyn, wire::T_PTR)]);
    qs.push(vec![q(&Name::from_dotted(META_NAME), wire::T_PTR)]);
    qs.push(vec![q(&tyn.lower(), wire::T_PTR)]);
    if let Some(sub) = split_sub(base_ty).1 {
        qs.push(vec![q(&Name::from_dotted(&sub), wire::T_PTR)]);
    }
    for sp in specs.iter().take(if overflow { 3 } else { 6 }) {
        let full = fullname_of(sp);
        let host = Name::from_dotted(&sp.host);
        match rng.below(5) {
            0 => qs.push(vec![q(&full, wire::T_ANY)]),
            1 => qs.push(vec![q(&full, wire::T_SRV), q(&full, wire::T_TXT)]),
            2 => qs.push(vec![q(&host, wire::T_A), q(&host, wire::T_AAAA)]),
            3 => qs.push(vec![q(&host, wire::T_ANY), q(&tyn, wire::T_PTR)]),
            _ => qs.push(vec![q(&full.lower(), wire::T_ANY), q(&Name::from_dotted(&split_sub(&sp.ty).0), wire::T_PTR)]),
        }
    }
    let mut tq = settle;
    for (k, questions) in qs.into_iter().enumerate() {
        let mut m = Msg::query();
        m.questions = questions;
        let legacy = !overflow && rng.below(5) == 0;
        if legacy {
            m.id = 0x1234 + k as u16;
        }
        s.op(tq, Op::PeerSend { p: 0, v4: !dual || rng.bool(), sport: if legacy { 40_000 + k as u16 } else { 5353 }, msg: m, to: Dest::Mcast });
        tq += 150 + rng.below(400);
    }
    // withdraw some services at the end (goodbye packets)
    if !overflow {
        for (k, sp) in specs.iter().enumerate() {
            if rng.below(3) == 0 {
                s.op(tq + 200 + k as u64 * 30, Op::Unregister { d: 0, fullname: fullname_of(sp).escaped(), slot: 30 + k as u32 });
            }
        }
    }
    s.horizon_ms = tq + 2500;
    s.max_steps = 40_000;
    s.sort_ops();
    s
}

fn judge_resp(scn: &Scenario, tr: &Trace) -> Judged {
    let mut j = Judged::default();
    let d = 0;
    let tm = TxModel::build(scn, tr, d);
    let renamed = tr.events.iter().any(|e| matches!(e.ev, EvKind::MonNameChange { .. }));
    let meta = Name::from_dotted(META_NAME);
    // the universe of records the daemon was given
    // owner names may be spelled as registered or as in a question read in the same step (the daemon answers under the
    // spelling it was asked for); names inside RDATA are always the registered spelling
    let in_universe = |r: &Rec, qn: &[Name]| -> bool {
        let own = |reg: &Name| -> bool { r.name.0 == reg.0 || (r.name.eq_ci(reg) && qn.iter().any(|q| q.0 == r.name.0)) };
        tm.svcs.iter().any(|s| match &r.rdata {
            RData::Ptr(t) => (t.0 == s.fullname.0 && (own(&s.ty) || s.sub.as_ref().map(|x| own(x)).unwrap_or(false))) || (own(&meta) && (t.0 == s.ty.0 || s.sub.as_ref().map(|x| x.0 == t.0).unwrap_or(false))),
            RData::Srv { port, target, .. } => own(&s.fullname) && target.0 == s.host.0 && *port == s.spec.port,
            RData::Txt(t) => own(&s.fullname) && *t == s.txt,
            RData::A(_) | RData::AAAA(_) => own(&s.host) && rec_ip(r).map(|ip| s.addrs.contains(&ip)).unwrap_or(false),
            RData::Nsec { next, .. } => (own(&s.fullname) || own(&s.host)) && next.0 == r.name.0,
            _ => false,
        })
    };
    let name_known = |n: &Name| -> bool { n.0 == meta.0 || tm.svcs.iter().any(|s| n.0 == s.fullname.0 || n.0 == s.host.0 || n.0 == s.ty.0 || s.sub.as_ref().map(|x| x.0 == n.0).unwrap_or(false)) };
    let mut seen: Vec<&[u8]> = vec![];
    for x in tr.tx.iter().filter(|x| x.d == d) {
        if seen.iter().any(|b| *b == &x.bytes[..]) {
            continue; // the same packet on another channel / repeated
        }
        seen.push(&x.bytes);
        let Some(m) = packet_rules(&mut j, &x.bytes, &format!("packet sent at t={} ({} bytes)", x.t, x.bytes.len())) else { continue };
        if renamed {
            j.abstained += 1;
            continue;
        }
        if m.all_records().any(|r| r.name.0.iter().any(|l| l.contains(&b'.') || l.contains(&b'\\'))) {
            j.probe("escaped-label-on-the-wire");
            j.nontrivial = true;
        }
        if x.bytes.len() > 8000 {
            j.probe("packet-near-the-limit");
            j.nontrivial = true;
        }
        // R2: nothing that was not added
        let qn: Vec<Name> = tr.rx.iter().filter(|r| r.d == d && r.step == Some(x.step)).filter_map(|r| r.msg.as_ref()).flat_map(|m| m.questions.iter().map(|q| q.name.clone())).collect();
        for r in m.all_records() {
            j.judgements += 1;
            if !in_universe(r, &qn) {
                let near = tm.svcs.iter().find(|s| r.name.eq_ci(&s.fullname) || r.name.eq_ci(&s.host) || r.name.eq_ci(&s.ty)).map(|s| format!("registered: instance {:?} host {:?} type {:?}", s.fullname, s.host, s.ty));
                j.fail("C02-R2", format!("packet sent at t={} carries {:?}, which matches no record of a registered service label for label ({})", x.t, r, near.unwrap_or_else(|| "no registered name is close".into())));
                break;
            }
        }
        // legacy unicast responses echo the question; other questions are the daemon's own probes
        if x.mcast {
            for q in &m.questions {
                if !name_known(&q.name) {
                    j.fail("C02-R2", format!("packet sent at t={} asks for {:?}, a name that was never registered", x.t, q.name));
                }
            }
        }
    }
    // R3: a PTR question for the type is answered, and a PTR is left out only if it does not fit
    if !renamed {
        for (oi, o) in scn.ops.iter().enumerate() {
            let Op::PeerSend { msg, sport: 5353, .. } = &o.op else { continue };
            if !msg.is_query() || msg.questions.len() != 1 || msg.questions[0].ty != wire::T_PTR {
                continue;
            }
            let qn = &msg.questions[0].name;
            let Some(t_op) = tr.op_times.get(oi).copied().flatten() else { continue };
            let Some(rx) = tr.rx.iter().find(|r| r.d == d && r.step.is_some() && r.t_sent == t_op && r.msg.as_ref().map(|m| m.is_query() && m.questions.first().map(|q| q.name.0 == qn.0).unwrap_or(false)).unwrap_or(false)) else { continue };
            let step = rx.step.unwrap();
            let expected: Vec<Rec> = tm.svcs.iter().enumerate().filter(|(si, s)| s.ty.0 == qn.0 && s.reg_t + 2500 < rx.t_arrive && s.end_t.is_none() && tm.active_for_packet(scn, tr, *si, rx.if_index, step)).map(|(_, s)| Rec::ptr(&s.ty, &s.fullname, 4500)).collect();
            if expected.is_empty() {
                continue;
            }
            j.judgements += 1;
            let resp: Vec<&Tx> = tr.tx.iter().filter(|x| x.d == d && x.step == step && x.if_index == Some(rx.if_index) && x.v4 == rx.v4 && x.msg.as_ref().map(|m| m.is_response()).unwrap_or(false)).collect();
            if resp.is_empty() {
                j.fail("C02-R3", format!("the question {:?} PTR read at t={} (step {}) has {} registered answers ({} bytes uncompressed) but no response packet was sent on if{}", qn, rx.t_read.unwrap_or(0), step, expected.len(), expected.iter().map(uncompressed_size).sum::<usize>(), rx.if_index));
                continue;
            }
            let total: usize = resp.iter().map(|x| x.bytes.len()).max().unwrap_or(0);
            for e in &expected {
                let present = resp.iter().any(|x| x.msg.as_ref().map(|m| m.answers.iter().any(|a| rec_exact(a, e))).unwrap_or(false));
                if !present {
                    j.probe("record-left-out");
                    j.nontrivial = true;
                    if total + uncompressed_size(e) <= wire::MAX_PKT {
                        j.fail("C02-R3", format!("response to {:?} PTR at t={} leaves out {:?} ({} bytes uncompressed) although the packet has only {} bytes", qn, rx.t_read.unwrap_or(0), e, uncompressed_size(e), total));
                        break;
                    }
                }
            }
        }
    }
    j
}

// ------------------------------------------------------------------------------------------------
// ka family

fn gen_ka(rs: u64, index: u64, tier: Tier) -> Scenario {
    let mut rng = Rng::new(rs, 0x2A);
    let overflow = index % 8 == 6;
    let mut s = Scenario::new("C02", if overflow { "ka-overflow" } else { "ka" }, rs);
    strict(&mut s);
    s.net.self_loop = false;
    s.duts.push(dut_v4(1, 10, 0));
    s.op(0, Op::SetIpCheck { d: 0, secs: HUGE_IP_CHECK_SECS });
    s.peers.push(peer_v4(1, 50, 0));
    let ty = ["_http._tcp.local.", "_ipp._udp.local.", "_Mixed-Case._tcp.local."][rng.below(3) as usize];
    let tyn = Name::from_dotted(ty);
    let t0 = rng.below(300);
    s.op(t0, Op::Browse { d: 0, ty: ty.to_string(), slot: 10 });
    let n = if overflow {
        match tier {
            Tier::Quick => 150 + rng.below(120),
            Tier::Thorough => 150 + rng.below(300),
        }
    } else {
        1 + rng.below(8)
    };
    let host = Name::from_dotted("KaHost.local.");
    let mut batch: Vec<Rec> = vec![];
    let mut size = 12;
    let mut ta = t0 + 100 + rng.below(600);
    let mut all: Vec<Rec> = vec![];
    for k in 0..n {
        let mut label = hostile_label(&mut rng, k);
        if overflow {
            let want = 30 + rng.below(34) as usize;
            while label.len() < want {
                label.push(b'w');
            }
            label.truncate(63);
            while std::str::from_utf8(&label).is_err() {
                label.pop();
            }
        }
        let mut labels = vec![label];
        labels.extend(tyn.0.iter().cloned());
        let inst = Name(labels);
        let ttl = [10u32, 120, 4500, 65_535, 0x8000_0000, u32::MAX][rng.below(6) as usize];
        let mut recs = vec![Rec::ptr(&tyn, &inst, ttl)];
        if overflow || rng.bool() {
            // complete record set: no follow-up queries for this instance
            recs.push(Rec::srv(&inst, &host, 8000, 4500, true));
            recs.push(Rec::txt(&inst, vec![0], 4500, true));
            recs.push(Rec::a(&host, [192, 168, 1, 50], 4500, true));
        }
        for r in recs {
            let need = uncompressed_size(&r);
            if size + need > 8000 {
                s.op(ta, Op::PeerSend { p: 0, v4: true, sport: 5353, msg: announce(&batch), to: Dest::Mcast });
                ta += 3;
                batch.clear();
                size = 12;
            }
            size += need;
            all.push(r.clone());
            batch.push(r);
        }
    }
    if !batch.is_empty() {
        s.op(ta, Op::PeerSend { p: 0, v4: true, sport: 5353, msg: announce(&batch), to: Dest::Mcast });
    }
    s.horizon_ms = t0 + [8_000u64, 16_500, 33_000][rng.below(3) as usize];
    s.max_steps = 40_000;
    s.sort_ops();
    s
}

/// A name learned from the wire as the daemon stores and re-encodes it: labels joined with '.', no escaping, read back
/// with `\.` and `\\` as escapes, every label cut to 63 bytes at a character boundary.
fn norm(n: &Name) -> Name {
    let mut out = Name::from_dotted(&n.dotted());
    for l in out.0.iter_mut() {
        if l.len() > 63 {
            let s = String::from_utf8_lossy(l).to_string();
            let mut end = 63;
            while !s.is_char_boundary(end) {
                end -= 1;
            }
            *l = s.as_bytes()[..end].to_vec();
        }
    }
    out
}

fn judge_ka(scn: &Scenario, tr: &Trace) -> Judged {
    let mut j = Judged::default();
    let d = 0;
    let m = RxModel::build(scn, tr, d);
    let bw = browse_windows(scn, tr, d);
    let Some(w) = bw.first() else { return j };
    let tyn = Name::from_dotted(&w.key);
    let mut seen: Vec<&[u8]> = vec![];
    for x in tr.tx.iter().filter(|x| x.d == d) {
        if seen.iter().any(|b| *b == &x.bytes[..]) {
            continue;
        }
        seen.push(&x.bytes);
        let Some(pm) = packet_rules(&mut j, &x.bytes, &format!("query sent at t={} ({} bytes)", x.t, x.bytes.len())) else { continue };
        if x.bytes.len() > 8000 {
            j.probe("packet-near-the-limit");
            j.nontrivial = true;
        }
        if !pm.answers.is_empty() {
            j.nontrivial = true;
            j.probe("known-answers-on-the-wire");
        }
        // R2: every question and known answer repeats a name the daemon was given (names learned from the wire are
        // kept in unescaped presentation form, so the comparison is on that form)
        for q in &pm.questions {
            j.judgements += 1;
            let known = q.name.0 == norm(&tyn).0
                || m.recs.iter().any(|h| norm(&h.rec.name).eq_ci(&q.name) || matches!(&h.rec.rdata, RData::Ptr(t) if norm(t).0 == q.name.0) || matches!(&h.rec.rdata, RData::Srv { target, .. } if norm(target).eq_ci(&q.name)));
            if !known {
                j.fail("C02-R2", format!("query at t={} asks for {:?}, a name the daemon never received nor was asked to browse", x.t, q.name));
            }
        }
        for a in &pm.answers {
            j.judgements += 1;
            let ok = m.recs.iter().any(|h| h.rec.ty == a.ty && norm(&h.rec.name).0 == a.name.0 && a.class == h.rec.class && match (&h.rec.rdata, &a.rdata) {
                (RData::Ptr(p), RData::Ptr(q)) => norm(p).0 == q.0,
                (p, q) => rdata_exact(p, q),
            } && h.arrivals.iter().any(|ar| ar.t <= x.t && a.ttl <= ar.ttl));
            if !ok {
                j.fail("C02-R2", format!("query at t={} lists the known answer {:?}, which is not a record the daemon received (same name, type, class, RDATA, TTL not above the received one)", x.t, a));
                break;
            }
        }
    }
    // R3: every scheduled browse query is on the wire (a packet that the encoder made too large is never sent)
    let mut t = w.open_t;
    let mut k = 0;
    while t + 5 < tr.stats.sim_ms && t < w.close_t {
        j.judgements += 1;
        if !queries_for(tr, d, &tyn, wire::T_PTR).iter().any(|q| q.t == t) {
            let cached = m.recs.iter().filter(|h| h.rec.ty == wire::T_PTR && h.arrivals.iter().any(|a| a.t < t)).count();
            j.fail("C02-R3", format!("the browse query scheduled for t={} is not on the wire ({} PTR records were cached then): the message was not sent", t, cached));
            break;
        }
        t += backoff_delay_s(k) * 1000;
        k += 1;
    }
    j
}

impl Property for C02 {
    fn id(&self) -> &'static str {
        "C02"
    }
    fn count(&self, tier: Tier) -> u64 {
        match tier {
            Tier::Quick => 1600,
            Tier::Thorough => 60_000,
        }
    }
    fn exhaustive_part(&self, _tier: Tier) -> Option<&'static str> {
        Some("facade family: a final record sized so that the packet ends at the limit -3..+16 bytes, every offset, for responses (answers) and queries (additionals)")
    }
    fn rule_text(&self) -> &'static str {
        "three families. 'resp': a DUT registers 1-6 (overflow worlds 90-170) services with instance / host / type names from a hostile label alphabet (1-63 bytes, dots, backslashes, trailing backslash, multi-byte UTF-8, case variants, shared suffixes, TXT up to several KB); a peer asks PTR / meta / ANY / SRV / TXT / A / AAAA / multi-question / legacy-unicast questions; every packet the DUT emits (probes, announcements, responses, goodbyes) is judged. 'ka': a DUT browses a type of which a peer announces 1-8 (overflow 150-420) instances with TTLs up to u32::MAX; the DUT's queries with known answers are judged. 'facade': seeded messages (questions and A/AAAA/PTR/SRV/TXT records in every section, names from the same alphabet incl. the pair one-label 'a.b' / two labels 'a','b' and case variants, TTL over the u32 range, sizes from empty to several packets, last record ending at limit-3..+16) encoded by the crate's encoder through the guarded facade. Rules: R1 each packet <= 8972 bytes, read completely by the independent strict RFC 1035 parser (counts = entries, labels <= 63, names <= 255, pointers backwards); R2 nothing foreign: every question and record equals, label for label and byte for byte (type, class, cache-flush, TTL, RDATA with embedded names), one that was added (facade: in order; resp: the record universe of the registered services; ka: the records received); R3 a record is left out only when it does not fit (the packet has no room for its uncompressed form), TC on every packet but the last, query additionals carried over, a question with registered answers / a scheduled query is not silently dropped; R4 the crate's own decoder reads the same content. Non-trivial = a packet with an escaped label, near the size limit, a split or a left-out record, or known answers; distinct by schedule signature (simulated families) / message (facade)."
    }
    fn assumptions(&self) -> Vec<&'static str> {
        vec![
            "'records that were added' is not observable on the wire: the resp and ka families compare with models of what the daemon should add (registered services; received records), so they decide 'nothing foreign, nothing mangled, nothing silently dropped', not completeness of every response (C06 does that)",
            "names the daemon learned from the wire are kept in unescaped presentation form; the ka family compares on that form (the label structure of such names is C04's subject)",
            "the facade family is seeded input generation on a pure function; it is the only way to reach the encoder's multi-packet (TC) path, which no daemon message uses",
        ]
    }
    fn expected_probes(&self) -> Vec<&'static str> {
        vec!["escaped-label-on-the-wire", "compression-pointer-on-the-wire", "packet-near-the-limit", "record-left-out", "message-split-into-packets", "record-ends-near-the-limit", "known-answers-on-the-wire"]
    }

    fn gen(&self, seed: u64, index: u64, tier: Tier) -> Scenario {
        let rs = mix(seed, index);
        match index % 4 {
            0 => gen_resp(rs, index / 4 * 8 + (index / 4) % 8, tier).with_family_index(index),
            1 => gen_ka(rs, index / 4 * 8 + (index / 4) % 8, tier).with_family_index(index),
            _ => {
                let fi = index / 4 * 2 + (index % 4 - 2);
                let mut rng = Rng::new(rs, 0xFA);
                let mut s = Scenario::new("C02", "facade", rs);
                s.horizon_ms = 0;
                if fi % 5 == 4 {
                    // boundary sweep: a compact base message plus a final record sized by the judge
                    let k = fi / 5;
                    let delta = (k % 20) as i64 - 3;
                    let in_additionals = (k / 20) % 2 == 1;
                    let owner = Name::from_dotted("Sweep Host.local.");
                    let mut m = if in_additionals { Msg::query() } else { Msg::response() };
                    if in_additionals {
                        m.questions.push(Question { name: owner.clone(), ty: wire::T_ANY, class: 1 });
                    }
                    m.answers.push(Rec::txt(&owner, vec![3, b'a', b'=', b'b'], 4500, true));
                    for i in 0..rng.below(4) {
                        m.answers.push(Rec::a(&owner, [10, 0, 0, i as u8], 120, true));
                    }
                    // bulk so that the last record stays below the 64 KB RDLENGTH limit
                    for _ in 0..3 + rng.below(3) {
                        m.answers.push(Rec::txt(&owner, { let mut b = vec![]; for _ in 0..5 { b.push(255); b.extend(std::iter::repeat(b'p').take(255)); } b }, 4500, true));
                    }
                    s.family = "facade-sweep".into();
                    s.params = json!({"msg": m, "end_at_limit_plus": delta, "sweep_in_additionals": in_additionals});
                } else {
                    let m = gen_facade_msg(&mut rng, fi);
                    s.params = json!({"msg": m});
                }
                s
            }
        }
    }

    fn judge(&self, scn: &Scenario, tr: &Trace) -> Judged {
        if scn.family.starts_with("facade") {
            judge_facade(scn)
        } else if scn.family.starts_with("resp") {
            judge_resp(scn, tr)
        } else {
            judge_ka(scn, tr)
        }
    }
}

trait WithFamilyIndex {
    fn with_family_index(self, index: u64) -> Self;
}
impl WithFamilyIndex for Scenario {
    fn with_family_index(self, _index: u64) -> Self {
        self
    }
}
