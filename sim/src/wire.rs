//! Independent DNS wire codec (RFC 1035 s.4, RFC 6762 s.18, RFC 6763 s.4.3/6).
//! Shares no code with the crate under test. Names are label vectors of raw bytes.

use serde::{Deserialize, Serialize};
use std::collections::HashMap;
use std::fmt;

pub const T_A: u16 = 1;
pub const T_CNAME: u16 = 5;
pub const T_PTR: u16 = 12;
pub const T_HINFO: u16 = 13;
pub const T_TXT: u16 = 16;
pub const T_AAAA: u16 = 28;
pub const T_SRV: u16 = 33;
pub const T_NSEC: u16 = 47;
pub const T_ANY: u16 = 255;
pub const FLUSH: u16 = 0x8000;
pub const QR: u16 = 0x8000;
pub const AA: u16 = 0x0400;
pub const TC: u16 = 0x0200;
pub const MAX_PKT: usize = 8972;

#[derive(Clone, PartialEq, Eq, Hash, PartialOrd, Ord, Default)]
pub struct Name(pub Vec<Vec<u8>>);

#[derive(Serialize, Deserialize)]
#[serde(untagged)]
enum NameRepr {
    S(String),
    B(Vec<Vec<u8>>),
}

impl Serialize for Name {
    fn serialize<S: serde::Serializer>(&self, s: S) -> Result<S::Ok, S::Error> {
        let plain = self.0.iter().all(|l| {
            !l.is_empty() && std::str::from_utf8(l).map(|t| !t.chars().any(|c| c.is_control())).unwrap_or(false)
        });
        if plain {
            NameRepr::S(self.escaped()).serialize(s)
        } else {
            NameRepr::B(self.0.clone()).serialize(s)
        }
    }
}

impl<'de> Deserialize<'de> for Name {
    fn deserialize<D: serde::Deserializer<'de>>(d: D) -> Result<Self, D::Error> {
        Ok(match NameRepr::deserialize(d)? {
            NameRepr::S(s) => Name::from_dotted(&s),
            NameRepr::B(b) => Name(b),
        })
    }
}

impl Name {
    /// Parse a dotted name; `\.` and `\\` are escapes (RFC 6763 4.3), a trailing dot is optional.
    pub fn from_dotted(s: &str) -> Name {
        let mut labels = Vec::new();
        let mut cur: Vec<u8> = Vec::new();
        let b = s.as_bytes();
        let mut i = 0;
        while i < b.len() {
            match b[i] {
                b'\\' if i + 1 < b.len() && (b[i + 1] == b'.' || b[i + 1] == b'\\') => {
                    cur.push(b[i + 1]);
                    i += 2;
                }
                b'.' => {
                    if !cur.is_empty() {
                        labels.push(std::mem::take(&mut cur));
                    }
                    i += 1;
                }
                c => {
                    cur.push(c);
                    i += 1;
                }
            }
        }
        if !cur.is_empty() {
            labels.push(cur);
        }
        Name(labels)
    }

    pub fn from_labels(ls: &[&[u8]]) -> Name {
        Name(ls.iter().map(|l| l.to_vec()).collect())
    }

    /// Labels joined with '.', trailing dot, no escaping: the form the crate's decoder produces.
    pub fn dotted(&self) -> String {
        let mut s = String::new();
        for l in &self.0 {
            s.push_str(&String::from_utf8_lossy(l));
            s.push('.');
        }
        s
    }

    /// Escaped presentation form (dots and backslashes inside labels escaped).
    pub fn escaped(&self) -> String {
        let mut s = String::new();
        for l in &self.0 {
            for ch in String::from_utf8_lossy(l).chars() {
                if ch == '.' || ch == '\\' {
                    s.push('\\');
                }
                s.push(ch);
            }
            s.push('.');
        }
        s
    }

    pub fn lower(&self) -> Name {
        Name(self.0.iter().map(|l| l.to_ascii_lowercase()).collect())
    }

    pub fn eq_ci(&self, o: &Name) -> bool {
        self.0.len() == o.0.len() && self.0.iter().zip(&o.0).all(|(a, b)| a.eq_ignore_ascii_case(b))
    }

    pub fn wire_len(&self) -> usize {
        self.0.iter().map(|l| l.len() + 1).sum::<usize>() + 1
    }

    pub fn ends_with(&self, suffix: &Name) -> bool {
        self.0.len() >= suffix.0.len()
            && self.0[self.0.len() - suffix.0.len()..]
                .iter()
                .zip(&suffix.0)
                .all(|(a, b)| a.eq_ignore_ascii_case(b))
    }
}

impl fmt::Debug for Name {
    fn fmt(&self, f: &mut fmt::Formatter<'_>) -> fmt::Result {
        write!(f, "{}", self.escaped())
    }
}

#[derive(Clone, PartialEq, Eq, Hash, Debug, Serialize, Deserialize)]
pub enum RData {
    A([u8; 4]),
    AAAA([u8; 16]),
    Ptr(Name),
    Srv { prio: u16, weight: u16, port: u16, target: Name },
    Txt(Vec<u8>),
    Nsec { next: Name, bitmap: Vec<u8> },
    Hinfo { cpu: Vec<u8>, os: Vec<u8> },
    Other(Vec<u8>),
}

#[derive(Clone, PartialEq, Eq, Hash, Debug, Serialize, Deserialize)]
pub struct Rec {
    pub name: Name,
    pub ty: u16,
    /// class including the cache-flush bit
    pub class: u16,
    pub ttl: u32,
    pub rdata: RData,
}

impl Rec {
    pub fn flush(&self) -> bool {
        self.class & FLUSH != 0
    }
    pub fn cls(&self) -> u16 {
        self.class & 0x7FFF
    }
    /// same owner (ci), type, class (w/o flush) and rdata (names ci)
    pub fn same_data(&self, o: &Rec) -> bool {
        self.ty == o.ty && self.cls() == o.cls() && self.name.eq_ci(&o.name) && rdata_eq_ci(&self.rdata, &o.rdata)
    }
    pub fn a(name: &Name, ip: [u8; 4], ttl: u32, flush: bool) -> Rec {
        Rec { name: name.clone(), ty: T_A, class: 1 | if flush { FLUSH } else { 0 }, ttl, rdata: RData::A(ip) }
    }
    pub fn aaaa(name: &Name, ip: [u8; 16], ttl: u32, flush: bool) -> Rec {
        Rec { name: name.clone(), ty: T_AAAA, class: 1 | if flush { FLUSH } else { 0 }, ttl, rdata: RData::AAAA(ip) }
    }
    pub fn ptr(name: &Name, target: &Name, ttl: u32) -> Rec {
        Rec { name: name.clone(), ty: T_PTR, class: 1, ttl, rdata: RData::Ptr(target.clone()) }
    }
    pub fn srv(name: &Name, target: &Name, port: u16, ttl: u32, flush: bool) -> Rec {
        Rec {
            name: name.clone(),
            ty: T_SRV,
            class: 1 | if flush { FLUSH } else { 0 },
            ttl,
            rdata: RData::Srv { prio: 0, weight: 0, port, target: target.clone() },
        }
    }
    pub fn txt(name: &Name, txt: Vec<u8>, ttl: u32, flush: bool) -> Rec {
        Rec { name: name.clone(), ty: T_TXT, class: 1 | if flush { FLUSH } else { 0 }, ttl, rdata: RData::Txt(txt) }
    }
    pub fn with_ttl(&self, ttl: u32) -> Rec {
        let mut r = self.clone();
        r.ttl = ttl;
        r
    }
}

pub fn rdata_eq_ci(a: &RData, b: &RData) -> bool {
    match (a, b) {
        (RData::Ptr(x), RData::Ptr(y)) => x.eq_ci(y),
        (
            RData::Srv { prio: p1, weight: w1, port: o1, target: t1 },
            RData::Srv { prio: p2, weight: w2, port: o2, target: t2 },
        ) => p1 == p2 && w1 == w2 && o1 == o2 && t1.eq_ci(t2),
        (RData::Nsec { next: n1, bitmap: b1 }, RData::Nsec { next: n2, bitmap: b2 }) => n1.eq_ci(n2) && b1 == b2,
        _ => a == b,
    }
}

#[derive(Clone, PartialEq, Eq, Hash, Debug, Serialize, Deserialize)]
pub struct Question {
    pub name: Name,
    pub ty: u16,
    pub class: u16,
}

#[derive(Clone, PartialEq, Eq, Debug, Default, Serialize, Deserialize)]
pub struct Msg {
    pub id: u16,
    pub flags: u16,
    pub questions: Vec<Question>,
    pub answers: Vec<Rec>,
    pub authorities: Vec<Rec>,
    pub additionals: Vec<Rec>,
}

impl Msg {
    pub fn query() -> Msg {
        Msg::default()
    }
    pub fn response() -> Msg {
        Msg { flags: QR | AA, ..Default::default() }
    }
    pub fn is_response(&self) -> bool {
        self.flags & QR != 0
    }
    pub fn is_query(&self) -> bool {
        !self.is_response()
    }
    pub fn q(mut self, name: &Name, ty: u16) -> Msg {
        self.questions.push(Question { name: name.clone(), ty, class: 1 });
        self
    }
    pub fn an(mut self, r: Rec) -> Msg {
        self.answers.push(r);
        self
    }
    pub fn ad(mut self, r: Rec) -> Msg {
        self.additionals.push(r);
        self
    }
    pub fn ns(mut self, r: Rec) -> Msg {
        self.authorities.push(r);
        self
    }
    pub fn all_records(&self) -> impl Iterator<Item = &Rec> {
        self.answers.iter().chain(self.authorities.iter()).chain(self.additionals.iter())
    }
    pub fn encode(&self) -> Vec<u8> {
        encode(self, true)
    }
}

// ---------------------------------------------------------------- parsing

pub struct ParseInfo {
    pub consumed: usize,
    pub pointers: usize,
    pub max_label: usize,
    pub max_name_wire: usize,
    /// problems that make the packet malformed although content could be read
    pub problems: Vec<String>,
}

struct Cur<'a> {
    d: &'a [u8],
    pos: usize,
    info: ParseInfo,
}

impl<'a> Cur<'a> {
    fn u8(&mut self) -> Result<u8, String> {
        let v = *self.d.get(self.pos).ok_or("eof")?;
        self.pos += 1;
        Ok(v)
    }
    fn u16(&mut self) -> Result<u16, String> {
        if self.pos + 2 > self.d.len() {
            return Err("eof in u16".into());
        }
        let v = u16::from_be_bytes([self.d[self.pos], self.d[self.pos + 1]]);
        self.pos += 2;
        Ok(v)
    }
    fn u32(&mut self) -> Result<u32, String> {
        if self.pos + 4 > self.d.len() {
            return Err("eof in u32".into());
        }
        let v = u32::from_be_bytes([self.d[self.pos], self.d[self.pos + 1], self.d[self.pos + 2], self.d[self.pos + 3]]);
        self.pos += 4;
        Ok(v)
    }
    fn take(&mut self, n: usize) -> Result<&'a [u8], String> {
        if self.pos + n > self.d.len() {
            return Err("eof in bytes".into());
        }
        let s = &self.d[self.pos..self.pos + n];
        self.pos += n;
        Ok(s)
    }
    /// Reads a possibly compressed name at the cursor; maximally lenient on pointer targets.
    fn name(&mut self) -> Result<Name, String> {
        let mut labels = Vec::new();
        let mut p = self.pos;
        let mut jumped = false;
        let mut hops = 0;
        let mut wire = 1usize;
        loop {
            let len = *self.d.get(p).ok_or("eof in name")? as usize;
            if len == 0 {
                if !jumped {
                    self.pos = p + 1;
                }
                break;
            }
            match len & 0xC0 {
                0 => {
                    if p + 1 + len > self.d.len() {
                        return Err("label beyond end".into());
                    }
                    labels.push(self.d[p + 1..p + 1 + len].to_vec());
                    self.info.max_label = self.info.max_label.max(len);
                    wire += len + 1;
                    p += 1 + len;
                }
                0xC0 => {
                    let lo = *self.d.get(p + 1).ok_or("eof in pointer")? as usize;
                    let target = ((len & 0x3F) << 8) | lo;
                    if !jumped {
                        self.pos = p + 2;
                        jumped = true;
                    }
                    if target >= p {
                        self.info.problems.push(format!("forward/self pointer at {p} -> {target}"));
                    }
                    self.info.pointers += 1;
                    hops += 1;
                    if hops > 256 {
                        return Err("pointer loop".into());
                    }
                    p = target;
                }
                _ => return Err(format!("bad label type 0x{len:02x} at {p}")),
            }
        }
        self.info.max_name_wire = self.info.max_name_wire.max(wire);
        if wire > 255 {
            self.info.problems.push(format!("name of {wire} wire bytes"));
        }
        Ok(Name(labels))
    }

    fn rec(&mut self) -> Result<Rec, String> {
        let name = self.name()?;
        let ty = self.u16()?;
        let class = self.u16()?;
        let ttl = self.u32()?;
        let rdlen = self.u16()? as usize;
        let start = self.pos;
        if start + rdlen > self.d.len() {
            return Err("rdata beyond end".into());
        }
        let end = start + rdlen;
        let raw = &self.d[start..end];
        let parsed: Result<RData, String> = (|| {
            Ok(match ty {
                T_A if rdlen == 4 => RData::A([raw[0], raw[1], raw[2], raw[3]]),
                T_AAAA if rdlen == 16 => {
                    let mut a = [0u8; 16];
                    a.copy_from_slice(raw);
                    RData::AAAA(a)
                }
                T_PTR | T_CNAME => {
                    let n = self.name()?;
                    if self.pos != end {
                        return Err("ptr rdata length mismatch".to_string());
                    }
                    RData::Ptr(n)
                }
                T_SRV => {
                    let prio = self.u16()?;
                    let weight = self.u16()?;
                    let port = self.u16()?;
                    let target = self.name()?;
                    if self.pos != end {
                        return Err("srv rdata length mismatch".to_string());
                    }
                    RData::Srv { prio, weight, port, target }
                }
                T_TXT => RData::Txt(raw.to_vec()),
                T_NSEC => {
                    let next = self.name()?;
                    if self.pos > end {
                        return Err("nsec overrun".to_string());
                    }
                    let bitmap = self.d[self.pos..end].to_vec();
                    RData::Nsec { next, bitmap }
                }
                T_HINFO => {
                    let l1 = *raw.first().ok_or("hinfo")? as usize;
                    if 1 + l1 >= raw.len() + 1 {
                        return Err("hinfo".to_string());
                    }
                    let cpu = raw.get(1..1 + l1).ok_or("hinfo")?.to_vec();
                    let l2 = *raw.get(1 + l1).ok_or("hinfo")? as usize;
                    let os = raw.get(2 + l1..2 + l1 + l2).ok_or("hinfo")?.to_vec();
                    RData::Hinfo { cpu, os }
                }
                _ => RData::Other(raw.to_vec()),
            })
        })();
        self.pos = end;
        let rdata = match parsed {
            Ok(r) => r,
            Err(_) => RData::Other(raw.to_vec()),
        };
        Ok(Rec { name, ty, class, ttl, rdata })
    }
}

/// Lenient parse. Returns the message and parse facts (bytes consumed, problems).
pub fn parse_info(d: &[u8]) -> Result<(Msg, ParseInfo), String> {
    if d.len() < 12 {
        return Err("short header".into());
    }
    let mut c = Cur {
        d,
        pos: 0,
        info: ParseInfo { consumed: 0, pointers: 0, max_label: 0, max_name_wire: 0, problems: vec![] },
    };
    let id = c.u16()?;
    let flags = c.u16()?;
    let qd = c.u16()?;
    let an = c.u16()?;
    let ns = c.u16()?;
    let ar = c.u16()?;
    let mut m = Msg { id, flags, ..Default::default() };
    for _ in 0..qd {
        let name = c.name()?;
        let ty = c.u16()?;
        let class = c.u16()?;
        m.questions.push(Question { name, ty, class });
    }
    for _ in 0..an {
        let r = c.rec()?;
        m.answers.push(r);
    }
    for _ in 0..ns {
        let r = c.rec()?;
        m.authorities.push(r);
    }
    for _ in 0..ar {
        let r = c.rec()?;
        m.additionals.push(r);
    }
    c.info.consumed = c.pos;
    Ok((m, c.info))
}

pub fn parse(d: &[u8]) -> Result<Msg, String> {
    parse_info(d).map(|x| x.0)
}

/// Strict well-formedness for packets the daemon under test emits.
pub fn parse_strict(d: &[u8]) -> Result<Msg, String> {
    if d.len() > MAX_PKT {
        return Err(format!("packet of {} bytes exceeds {}", d.len(), MAX_PKT));
    }
    let (m, info) = parse_info(d)?;
    if info.consumed != d.len() {
        return Err(format!("header counts cover {} of {} bytes", info.consumed, d.len()));
    }
    if info.max_label > 63 {
        return Err("label > 63".into());
    }
    if let Some(p) = info.problems.first() {
        return Err(p.clone());
    }
    for q in &m.questions {
        if q.name.0.iter().any(|l| l.is_empty()) {
            return Err("empty label".into());
        }
    }
    Ok(m)
}

// ---------------------------------------------------------------- building

struct Enc {
    out: Vec<u8>,
    names: HashMap<Vec<Vec<u8>>, usize>,
    compress: bool,
}

impl Enc {
    fn name(&mut self, n: &Name) {
        for i in 0..n.0.len() {
            let suffix: Vec<Vec<u8>> = n.0[i..].to_vec();
            if self.compress {
                if let Some(&off) = self.names.get(&suffix) {
                    self.out.extend_from_slice(&(0xC000u16 | off as u16).to_be_bytes());
                    return;
                }
                if self.out.len() < 0x3FFF {
                    self.names.insert(suffix, self.out.len());
                }
            }
            let l = &n.0[i];
            self.out.push(l.len() as u8);
            self.out.extend_from_slice(l);
        }
        self.out.push(0);
    }
    fn rec(&mut self, r: &Rec) {
        self.name(&r.name);
        self.out.extend_from_slice(&r.ty.to_be_bytes());
        self.out.extend_from_slice(&r.class.to_be_bytes());
        self.out.extend_from_slice(&r.ttl.to_be_bytes());
        let lenpos = self.out.len();
        self.out.extend_from_slice(&[0, 0]);
        match &r.rdata {
            RData::A(a) => self.out.extend_from_slice(a),
            RData::AAAA(a) => self.out.extend_from_slice(a),
            RData::Ptr(n) => self.name(n),
            RData::Srv { prio, weight, port, target } => {
                self.out.extend_from_slice(&prio.to_be_bytes());
                self.out.extend_from_slice(&weight.to_be_bytes());
                self.out.extend_from_slice(&port.to_be_bytes());
                self.name(target);
            }
            RData::Txt(t) => self.out.extend_from_slice(t),
            RData::Nsec { next, bitmap } => {
                self.name(next);
                self.out.extend_from_slice(bitmap);
            }
            RData::Hinfo { cpu, os } => {
                self.out.push(cpu.len() as u8);
                self.out.extend_from_slice(cpu);
                self.out.push(os.len() as u8);
                self.out.extend_from_slice(os);
            }
            RData::Other(b) => self.out.extend_from_slice(b),
        }
        let l = (self.out.len() - lenpos - 2) as u16;
        self.out[lenpos..lenpos + 2].copy_from_slice(&l.to_be_bytes());
    }
}

pub fn encode(m: &Msg, compress: bool) -> Vec<u8> {
    let mut e = Enc { out: Vec::with_capacity(512), names: HashMap::new(), compress };
    e.out.extend_from_slice(&m.id.to_be_bytes());
    e.out.extend_from_slice(&m.flags.to_be_bytes());
    e.out.extend_from_slice(&(m.questions.len() as u16).to_be_bytes());
    e.out.extend_from_slice(&(m.answers.len() as u16).to_be_bytes());
    e.out.extend_from_slice(&(m.authorities.len() as u16).to_be_bytes());
    e.out.extend_from_slice(&(m.additionals.len() as u16).to_be_bytes());
    for q in &m.questions {
        e.name(&q.name);
        e.out.extend_from_slice(&q.ty.to_be_bytes());
        e.out.extend_from_slice(&q.class.to_be_bytes());
    }
    for r in m.answers.iter().chain(&m.authorities).chain(&m.additionals) {
        e.rec(r);
    }
    e.out
}

// ---------------------------------------------------------------- TXT reference codec (RFC 6763 s.6)

/// Reference decoding of TXT RDATA: (key, Some(value) | None), stops at a zero length or a string
/// that runs past the end; keys that are not UTF-8 are skipped; first key (ci) wins.
pub fn txt_decode_unique(txt: &[u8]) -> Vec<(String, Option<Vec<u8>>)> {
    let mut out: Vec<(String, Option<Vec<u8>>)> = Vec::new();
    let mut i = 0;
    while i < txt.len() {
        let l = txt[i] as usize;
        if l == 0 {
            break;
        }
        if i + 1 + l > txt.len() {
            break;
        }
        let s = &txt[i + 1..i + 1 + l];
        i += 1 + l;
        let (k, v) = match s.iter().position(|&b| b == b'=') {
            Some(p) => (&s[..p], Some(s[p + 1..].to_vec())),
            None => (s, None),
        };
        let Ok(k) = std::str::from_utf8(k) else { continue };
        let kl = k.to_lowercase();
        if out.iter().any(|(e, _)| e.to_lowercase() == kl) {
            continue;
        }
        out.push((k.to_string(), v));
    }
    out
}

pub fn txt_encode(props: &[(String, Option<Vec<u8>>)]) -> Vec<u8> {
    let mut out = Vec::new();
    for (k, v) in props {
        let mut s = k.as_bytes().to_vec();
        if let Some(v) = v {
            s.push(b'=');
            s.extend_from_slice(v);
        }
        out.push(s.len() as u8);
        out.extend_from_slice(&s);
    }
    if out.is_empty() {
        out.push(0);
    }
    out
}

pub fn hex(b: &[u8]) -> String {
    let mut s = String::with_capacity(b.len() * 2);
    for x in b {
        s.push_str(&format!("{x:02x}"));
    }
    s
}

pub fn unhex(s: &str) -> Vec<u8> {
    (0..s.len() / 2).map(|i| u8::from_str_radix(&s[2 * i..2 * i + 2], 16).unwrap_or(0)).collect()
}

pub fn ty_name(t: u16) -> &'static str {
    match t {
        T_A => "A",
        T_AAAA => "AAAA",
        T_PTR => "PTR",
        T_SRV => "SRV",
        T_TXT => "TXT",
        T_NSEC => "NSEC",
        T_ANY => "ANY",
        T_HINFO => "HINFO",
        T_CNAME => "CNAME",
        _ => "?",
    }
}

/// One-line rendering for logs and samples.
pub fn summarize(m: &Msg) -> String {
    let mut s = String::new();
    s.push_str(if m.is_response() { "R" } else { "Q" });
    if m.flags & TC != 0 {
        s.push_str("/TC");
    }
    for q in &m.questions {
        s.push_str(&format!(" ?{}:{}", q.name.escaped(), ty_name(q.ty)));
    }
    let sec = |tag: &str, v: &Vec<Rec>, s: &mut String| {
        for r in v {
            s.push_str(&format!(
                " {}{}:{}{}/{}",
                tag,
                r.name.escaped(),
                ty_name(r.ty),
                if r.flush() { "!" } else { "" },
                r.ttl
            ));
            match &r.rdata {
                RData::Ptr(n) => s.push_str(&format!("->{}", n.escaped())),
                RData::Srv { port, target, .. } => s.push_str(&format!("->{}:{}", target.escaped(), port)),
                RData::A(a) => s.push_str(&format!("={}.{}.{}.{}", a[0], a[1], a[2], a[3])),
                RData::AAAA(a) => s.push_str(&format!("={}", std::net::Ipv6Addr::from(*a))),
                RData::Txt(b) => s.push_str(&format!("#{}", b.len())),
                _ => {}
            }
        }
    };
    sec("an:", &m.answers, &mut s);
    sec("ns:", &m.authorities, &mut s);
    sec("ad:", &m.additionals, &mut s);
    s
}
