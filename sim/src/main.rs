#![allow(dead_code)]
mod alloc;
mod env;
mod hashseed;
mod rng;
mod scenario;
mod trace;
mod wire;
mod world;

#[global_allocator]
static GLOBAL: alloc::Counting = alloc::Counting;

use scenario::*;

fn smoke() -> Scenario {
    let mut s = Scenario::new("SMOKE", "smoke", 7);
    s.duts.push(dut_v4(1, 10, 0));
    s.duts.push(dut_v4(1, 11, 0));
    s.horizon_ms = 60_000;
    s.op(0, Op::Monitor { d: 0, slot: 1 });
    s.op(
        10,
        Op::Register {
            d: 0,
            svc: SvcSpec {
                ty: "_test._udp.local.".into(),
                instance: "inst".into(),
                host: "hosta.local.".into(),
                addrs: vec!["192.168.1.10".into()],
                port: 1234,
                txt: vec![("k".into(), Some(b"v".to_vec()))],
                addr_auto: false,
                probe: true,
                intfs: None,
                link_local_only: false,
                txt_via: None,
            },
        },
    );
    s.op(20, Op::Browse { d: 1, ty: "_test._udp.local.".into(), slot: 2 });
    s
}

fn main() {
    hashseed::install_panic_hook();
    if let Err(e) = hashseed::selftest() {
        eprintln!("HARNESS ERROR: {e}");
        std::process::exit(2);
    }
    let s = smoke();
    let t0 = std::time::Instant::now();
    let tr = world::execute(&s, 1);
    let el = t0.elapsed();
    for x in &tr.tx {
        println!("t={} d={} if={:?} {}", x.t, x.d, x.if_index, x.msg.as_ref().map(wire::summarize).unwrap_or_default());
    }
    for e in &tr.events {
        println!("ev t={} d={} slot={} {:?}", e.t, e.d, e.slot, e.ev);
    }
    println!("fatal: {:?}", tr.fatal);
    println!("steps={} wall={:?} fp={:x}", tr.steps.len(), el, tr.fingerprint());
    let tr2 = world::execute(&s, 1);
    println!("fp2={:x}", tr2.fingerprint());
}
