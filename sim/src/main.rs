#![allow(dead_code)]
mod alloc;
mod env;
mod hashseed;
mod props;
mod rng;
mod runner;
mod scenario;
mod trace;
mod wire;
mod world;

#[global_allocator]
static GLOBAL: alloc::Counting = alloc::Counting;

use props::Tier;
use std::path::Path;

pub fn print_trace(scn: &scenario::Scenario, tr: &trace::Trace) {
    println!("scenario {} family={} seed={:x} duts={} peers={} ops={} horizon={}ms", scn.prop, scn.family, scn.seed, scn.duts.len(), scn.peers.len(), scn.ops.len(), scn.horizon_ms);
    #[derive(Clone)]
    enum L {
        Op(usize),
        Tx(usize),
        Rx(usize),
        Ev(usize),
        Api(usize),
        Fatal(usize),
    }
    let mut lines: Vec<(u64, u8, L)> = vec![];
    for (i, t) in tr.op_times.iter().enumerate() {
        if let Some(t) = t {
            lines.push((*t, 0, L::Op(i)));
        }
    }
    for x in &tr.tx {
        lines.push((x.t, 3, L::Tx(x.idx)));
    }
    for r in &tr.rx {
        if let Some(t) = r.t_read {
            lines.push((t, 2, L::Rx(r.id)));
        }
    }
    for (i, e) in tr.events.iter().enumerate() {
        lines.push((e.t, 4, L::Ev(i)));
    }
    for (i, a) in tr.api.iter().enumerate() {
        if a.outcome != trace::ApiOutcome::Ok {
            lines.push((a.t, 1, L::Api(i)));
        }
    }
    for (i, f) in tr.fatal.iter().enumerate() {
        lines.push((f.t, 5, L::Fatal(i)));
    }
    lines.sort_by_key(|l| (l.0, l.1));
    let max = std::env::var("VERIF_TRACE_LINES").ok().and_then(|s| s.parse().ok()).unwrap_or(400usize);
    for (t, _, l) in lines.iter().take(max) {
        match l {
            L::Op(i) => println!("{t:>9} op    {}", runner::short_op(&scn.ops[*i].op)),
            L::Tx(i) => {
                let x = &tr.tx[*i];
                println!(
                    "{t:>9} tx    d{} if{:?} {} -> {} {}{}",
                    x.d,
                    x.if_index,
                    if x.v4 { "v4" } else { "v6" },
                    x.dest,
                    x.msg.as_ref().map(wire::summarize).unwrap_or_else(|| "<unparsable>".into()),
                    x.malformed.as_ref().map(|m| format!(" MALFORMED({m})")).unwrap_or_default()
                );
            }
            L::Rx(i) => {
                let r = &tr.rx[*i];
                println!(
                    "{t:>9} rx    d{} if{} from {:?} {}{}",
                    r.d,
                    r.if_index,
                    r.src,
                    r.msg.as_ref().map(wire::summarize).unwrap_or_else(|| format!("<{} bytes unparsable>", r.bytes.len())),
                    if r.corrupted { " (corrupted)" } else { "" }
                );
            }
            L::Ev(i) => {
                let e = &tr.events[*i];
                println!("{t:>9} event d{} slot{} {}", e.d, e.slot, runner::short_ev(&e.ev));
            }
            L::Api(i) => println!("{t:>9} api   op#{} -> {:?}", tr.api[*i].op, tr.api[*i].outcome),
            L::Fatal(i) => println!("{t:>9} FATAL {:?}", tr.fatal[*i]),
        }
    }
    if lines.len() > max {
        println!("... {} more lines (VERIF_TRACE_LINES)", lines.len() - max);
    }
    println!("steps={} sim_ms={} final={:?}", tr.steps.len(), tr.stats.sim_ms, tr.final_phase);
}

fn usage() -> ! {
    eprintln!(
        "usage: mdns-sim check <ID> [--tier quick|thorough] [--seed N] [--runs N] [--threads N] [--budget-s N] [-v]\n       mdns-sim replay <file> [--quiet]\n       mdns-sim gen <ID> <index> [--tier T] [--seed N] [--trace]\n       mdns-sim selftest determinism [--runs N] [--seed N] [--only ID]\n       mdns-sim list"
    );
    std::process::exit(2)
}

fn main() {
    hashseed::install_panic_hook();
    if let Err(e) = hashseed::selftest() {
        eprintln!("HARNESS ERROR: {e}");
        std::process::exit(2);
    }
    let args: Vec<String> = std::env::args().skip(1).collect();
    if args.is_empty() {
        usage();
    }
    let flag = |name: &str| -> Option<String> { args.iter().position(|a| a == name).and_then(|i| args.get(i + 1).cloned()) };
    let has = |name: &str| args.iter().any(|a| a == name);
    let seed: u64 = flag("--seed").or_else(|| std::env::var("VERIF_SEED").ok()).and_then(|s| s.parse().ok()).unwrap_or(1);
    let tier = match flag("--tier").or_else(|| std::env::var("VERIF_TIER").ok()).as_deref() {
        Some("thorough") => Tier::Thorough,
        _ => Tier::Quick,
    };
    let threads: usize = flag("--threads")
        .and_then(|s| s.parse().ok())
        .unwrap_or_else(|| std::thread::available_parallelism().map(|n| n.get()).unwrap_or(4).min(16));
    match args[0].as_str() {
        "check" => {
            let Some(id) = args.get(1) else { usage() };
            let Some(p) = props::by_id(id) else {
                eprintln!("HARNESS ERROR: no check for property {id}");
                std::process::exit(2);
            };
            let o = runner::Opts {
                tier,
                seed,
                threads,
                runs: flag("--runs").and_then(|s| s.parse().ok()),
                budget_s: flag("--budget-s").and_then(|s| s.parse().ok()),
                verbose: has("-v"),
            };
            std::process::exit(runner::check(p.as_ref(), &o));
        }
        "replay" => {
            let Some(f) = args.get(1) else { usage() };
            std::process::exit(runner::replay(Path::new(f), has("--quiet")));
        }
        "gen" => {
            let (Some(id), Some(idx)) = (args.get(1), args.get(2).and_then(|s| s.parse::<u64>().ok())) else { usage() };
            let Some(p) = props::by_id(id) else { usage() };
            let scn = p.gen(seed, idx, tier);
            if has("--trace") {
                let tr = world::execute(&scn, 1);
                print_trace(&scn, &tr);
                let (j, foreign) = runner::judge(p.as_ref(), &scn, &tr);
                for f in foreign {
                    println!("foreign: {f}");
                }
                println!("judged: nontrivial={} judgements={} probes={:?}", j.nontrivial, j.judgements, j.probes);
                for v in j.violations {
                    println!("violation rule={} {}", v.rule, v.detail);
                }
            } else {
                println!("{}", serde_json::to_string_pretty(&scn).unwrap());
            }
        }
        "selftest" => {
            let runs = flag("--runs").and_then(|s| s.parse().ok()).unwrap_or(50);
            let mut ps = props::all();
            if let Some(only) = flag("--only") {
                ps.retain(|p| p.id() == only);
            }
            std::process::exit(runner::selftest_determinism(&ps, runs, seed, threads));
        }
        "list" => {
            for p in props::all() {
                println!("{} quick={} thorough={}", p.id(), p.count(Tier::Quick), p.count(Tier::Thorough));
            }
        }
        _ => usage(),
    }
}
