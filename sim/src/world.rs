//! The simulator: runs the real daemon threads in lock-step on a virtual clock against a
//! simulated multicast network, scripted peers and a simulated interface table.

use crate::env::{Dgram, Egress, Node, Phase};
use crate::rng::{mix, Rng};
use crate::scenario::*;
use crate::trace::*;
use crate::wire::{self, Msg, RData, Rec};
use if_addrs::{IfAddr, IfOperStatus, Ifv4Addr, Ifv6Addr, Interface};
use mdns_sd::{
    DaemonEvent, DaemonStatus, HostnameResolutionEvent, IfKind, IfPredicate, Receiver, ScopedIp, ServiceDaemon,
    ServiceEvent, ServiceInfo, TxtProperty, UnregisterStatus,
};
use std::cmp::Reverse;
use std::collections::{BTreeMap, BinaryHeap, HashMap};
use std::net::{IpAddr, Ipv4Addr, Ipv6Addr, SocketAddr, SocketAddrV4, SocketAddrV6};
use std::panic::{catch_unwind, AssertUnwindSafe};
use std::sync::Arc;
use std::time::{Duration, Instant};

pub const T0: u64 = 1_700_000_000_000;
/// alloc_base value for executions whose allocations are not metered (nested runs inside an oracle)
pub const NO_COUNT: usize = usize::MAX;
pub const GROUP_V4: Ipv4Addr = Ipv4Addr::new(224, 0, 0, 251);
pub const GROUP_V6: Ipv6Addr = Ipv6Addr::new(0xff02, 0, 0, 0, 0, 0, 0, 0xfb);

pub enum SlotRx {
    Browse(Receiver<ServiceEvent>),
    Host(Receiver<HostnameResolutionEvent>),
    Mon(Receiver<DaemonEvent>),
    Unreg(Receiver<UnregisterStatus>),
    Status(Receiver<DaemonStatus>),
    Metrics(Receiver<mdns_sd::Metrics>),
}

struct DutRt {
    node: Arc<Node>,
    daemon: Option<ServiceDaemon>,
    slots: BTreeMap<u32, (SlotRx, bool)>, // (receiver, disconnected reported)
    ifs: Vec<IfSpec>,
    epoch_off: i64,
    deadline: Option<u64>,
    pending: Vec<Dgram>,
    needs_step: bool,
    stalled_until: u64,
    gone: bool,
    steps_done: usize,
    yields_seen: u32,
    alloc_slot: usize,
}

struct PeerRt {
    cfg: PeerCfg,
    answered: u32,
    matched: u32,
    conflicts: HashMap<Vec<u8>, u32>,
}

#[derive(Clone, Debug)]
enum QEv {
    Op(usize),
    Deliver { d: usize, rx: usize },
    PeerGet { p: usize, from_d: usize, tx: usize, v4: bool, unicast: bool },
    PeerAuto { p: usize, v4: bool, msg: Msg },
    Spurious { d: usize },
    Tick,
}

pub struct World<'a> {
    scn: &'a Scenario,
    now: u64,
    duts: Vec<DutRt>,
    peers: Vec<PeerRt>,
    queue: BinaryHeap<Reverse<(u64, u64, usize)>>,
    qevs: Vec<Option<QEv>>,
    seq: u64,
    trace: Trace,
    net_rng: Rng,
    sched_rng: Rng,
    seg_down: HashMap<usize, bool>,
    watchdog: Duration,
    capped: bool,
    alloc_base: usize,
}

pub fn to_interface(spec: &IfSpec, a: &AddrSpec) -> Option<Interface> {
    let ip: IpAddr = a.ip.parse().ok()?;
    let addr = match ip {
        IpAddr::V4(v4) => {
            let p = a.prefix.min(32) as u32;
            let mask = if p == 0 { 0 } else { u32::MAX << (32 - p) };
            IfAddr::V4(Ifv4Addr { ip: v4, netmask: Ipv4Addr::from(mask), prefixlen: a.prefix, broadcast: None })
        }
        IpAddr::V6(v6) => {
            let p = a.prefix.min(128) as u32;
            let mask = if p == 0 { 0 } else { u128::MAX << (128 - p) };
            IfAddr::V6(Ifv6Addr { ip: v6, netmask: Ipv6Addr::from(mask), prefixlen: a.prefix, broadcast: None })
        }
    };
    Some(Interface {
        name: spec.name.clone(),
        addr,
        index: Some(spec.index),
        oper_status: if spec.up { IfOperStatus::Up } else { IfOperStatus::Down },
        is_p2p: false,
    })
}

pub fn to_interfaces(ifs: &[IfSpec]) -> Vec<Interface> {
    let mut v = vec![];
    for s in ifs {
        for a in &s.addrs {
            if let Some(i) = to_interface(s, a) {
                v.push(i);
            }
        }
    }
    v
}

pub fn to_ifkind(k: &IfKindSpec) -> IfKind {
    match k {
        IfKindSpec::All => IfKind::All,
        IfKindSpec::IPv4 => IfKind::IPv4,
        IfKindSpec::IPv6 => IfKind::IPv6,
        IfKindSpec::Name(n) => IfKind::Name(n.clone()),
        IfKindSpec::Addr(a) => match a.parse() {
            Ok(ip) => IfKind::Addr(ip),
            Err(_) => IfKind::Name(a.clone()),
        },
        IfKindSpec::LoopbackV4 => IfKind::LoopbackV4,
        IfKindSpec::LoopbackV6 => IfKind::LoopbackV6,
        IfKindSpec::IndexV4(i) => IfKind::IndexV4(*i),
        IfKindSpec::IndexV6(i) => IfKind::IndexV6(*i),
        IfKindSpec::NamePrefix(p) => {
            let p = p.clone();
            IfKind::Predicate(IfPredicate::new(move |i| i.name.starts_with(&p)))
        }
    }
}

pub fn make_info(s: &SvcSpec) -> Result<ServiceInfo, mdns_sd::Error> {
    let ips: Vec<String> = s.addrs.clone();
    let ip_arg: &[String] = &ips[..];
    let via = s.txt_via.as_deref().unwrap_or("vec");
    let mut info = match via {
        "slice" => {
            // (&str, &str) pairs: only possible for utf-8 values that are present
            let pairs: Vec<(String, String)> = s
                .txt
                .iter()
                .map(|(k, v)| (k.clone(), String::from_utf8_lossy(v.as_deref().unwrap_or(b"")).to_string()))
                .collect();
            ServiceInfo::new(&s.ty, &s.instance, &s.host, ip_arg, s.port, &pairs[..])?
        }
        "map" => {
            let m: HashMap<String, String> = s
                .txt
                .iter()
                .map(|(k, v)| (k.clone(), String::from_utf8_lossy(v.as_deref().unwrap_or(b"")).to_string()))
                .collect();
            ServiceInfo::new(&s.ty, &s.instance, &s.host, ip_arg, s.port, m)?
        }
        "optmap" => {
            let m: HashMap<String, String> = s
                .txt
                .iter()
                .map(|(k, v)| (k.clone(), String::from_utf8_lossy(v.as_deref().unwrap_or(b"")).to_string()))
                .collect();
            ServiceInfo::new(&s.ty, &s.instance, &s.host, ip_arg, s.port, Some(m))?
        }
        "none" => {
            let m: Option<HashMap<String, String>> = None;
            ServiceInfo::new(&s.ty, &s.instance, &s.host, ip_arg, s.port, m)?
        }
        _ => {
            let props: Vec<TxtProperty> = s
                .txt
                .iter()
                .map(|(k, v)| match v {
                    Some(v) => TxtProperty::from((k.as_str(), v.as_slice())),
                    None => TxtProperty::from(k.as_str()),
                })
                .collect();
            ServiceInfo::new(&s.ty, &s.instance, &s.host, ip_arg, s.port, props)?
        }
    };
    if s.addr_auto {
        info = info.enable_addr_auto();
    }
    if !s.probe {
        info.set_requires_probe(false);
    }
    if let Some(k) = &s.intfs {
        info.set_interfaces(k.iter().map(to_ifkind).collect());
    }
    if s.link_local_only {
        info.set_link_local_only(true);
    }
    Ok(info)
}

fn addr_view(ip: &ScopedIp) -> AddrView {
    match ip {
        ScopedIp::V4(v4) => AddrView {
            ip: IpAddr::V4(*v4.addr()),
            intfs: v4.interface_ids().iter().map(|i| (i.name.clone(), i.index)).collect(),
        },
        ScopedIp::V6(v6) => {
            AddrView { ip: IpAddr::V6(*v6.addr()), intfs: vec![(v6.scope_id().name.clone(), v6.scope_id().index)] }
        }
        _ => AddrView { ip: ip.to_ip_addr(), intfs: vec![] },
    }
}

fn addr_views<'x>(it: impl Iterator<Item = &'x ScopedIp>) -> Vec<AddrView> {
    let mut v: Vec<AddrView> = it.map(addr_view).collect();
    for a in v.iter_mut() {
        a.intfs.sort();
    }
    v.sort_by(|a, b| a.ip.cmp(&b.ip).then(a.intfs.cmp(&b.intfs)));
    v
}

fn conv_service(e: ServiceEvent) -> EvKind {
    match e {
        ServiceEvent::SearchStarted(s) => EvKind::SearchStarted(s),
        ServiceEvent::ServiceFound(a, b) => EvKind::Found(a, b),
        ServiceEvent::ServiceRemoved(a, b) => EvKind::Removed(a, b),
        ServiceEvent::SearchStopped(s) => EvKind::SearchStopped(s),
        ServiceEvent::ServiceResolved(r) => EvKind::Resolved(Box::new(ResolvedView {
            ty: r.ty_domain.clone(),
            sub: r.sub_ty_domain.clone(),
            fullname: r.fullname.clone(),
            host: r.host.clone(),
            port: r.port,
            addrs: addr_views(r.addresses.iter()),
            txt: r.txt_properties.iter().map(|p| (p.key().to_string(), p.val().map(|v| v.to_vec()))).collect(),
            lookup_mismatch: {
                // case-insensitive look-up: every key, in upper and lower case, finds the first property with that key
                let mut bad = vec![];
                for p in r.txt_properties.iter() {
                    let first = r.txt_properties.iter().find(|q| q.key().eq_ignore_ascii_case(p.key())).map(|q| q.val().map(|v| v.to_vec()));
                    // (ASCII case variants: the statement is about ASCII keys; keys from raw TXT bytes may hold anything)
                    for variant in [p.key().to_ascii_uppercase(), p.key().to_ascii_lowercase(), p.key().to_string()] {
                        let got = r.get_property_val(&variant).map(|v| v.map(|x| x.to_vec()));
                        if got != first {
                            bad.push(variant);
                        }
                    }
                }
                bad
            },
        })),
        other => EvKind::Other(format!("{other:?}")),
    }
}

fn conv_host(e: HostnameResolutionEvent) -> EvKind {
    match e {
        HostnameResolutionEvent::SearchStarted(s) => EvKind::HStarted(s),
        HostnameResolutionEvent::AddressesFound(n, a) => EvKind::HFound(n, addr_views(a.iter())),
        HostnameResolutionEvent::AddressesRemoved(n, a) => EvKind::HRemoved(n, addr_views(a.iter())),
        HostnameResolutionEvent::SearchTimeout(s) => EvKind::HTimeout(s),
        HostnameResolutionEvent::SearchStopped(s) => EvKind::HStopped(s),
        other => EvKind::Other(format!("{other:?}")),
    }
}

fn conv_mon(e: DaemonEvent) -> EvKind {
    match e {
        DaemonEvent::Announce(a, b) => EvKind::MonAnnounce(a, b),
        DaemonEvent::Error(e) => EvKind::MonError(e.to_string()),
        DaemonEvent::IpAdd(ip) => EvKind::MonIpAdd(ip),
        DaemonEvent::IpDel(ip) => EvKind::MonIpDel(ip),
        DaemonEvent::NameChange(c) => EvKind::MonNameChange {
            original: c.original,
            new_name: c.new_name,
            ty: c.rr_type as u16,
            intf: c.intf_name,
        },
        DaemonEvent::Respond(s) => EvKind::MonRespond(s),
        other => EvKind::Other(format!("{other:?}")),
    }
}

/// Drain the receivers of one DUT. `all` = include try_send channels (monitors) and
/// report disconnects; otherwise only the blocking-send channels.
fn drain_slots(
    slots: &mut BTreeMap<u32, (SlotRx, bool)>,
    events: &mut Vec<Ev>,
    d: usize,
    step: usize,
    t: u64,
    all: bool,
) -> usize {
    let mut n = 0;
    for (slot, (rx, disc)) in slots.iter_mut() {
        macro_rules! pump {
            ($r:expr, $conv:expr) => {
                loop {
                    match $r.try_recv() {
                        Ok(e) => {
                            events.push(Ev { d, slot: *slot, step, t, ev: $conv(e) });
                            n += 1;
                        }
                        Err(flume::TryRecvError::Empty) => break,
                        Err(flume::TryRecvError::Disconnected) => {
                            if all && !*disc {
                                *disc = true;
                                events.push(Ev { d, slot: *slot, step, t, ev: EvKind::Disconnected });
                            }
                            break;
                        }
                    }
                }
            };
        }
        match rx {
            SlotRx::Browse(r) => pump!(r, conv_service),
            SlotRx::Host(r) => pump!(r, conv_host),
            SlotRx::Mon(r) => {
                if all {
                    pump!(r, conv_mon)
                }
            }
            SlotRx::Unreg(r) => {
                if all {
                    pump!(r, |s| match s {
                        UnregisterStatus::OK => EvKind::UnregOk,
                        UnregisterStatus::NotFound => EvKind::UnregNotFound,
                    })
                }
            }
            SlotRx::Status(r) => {
                if all {
                    pump!(r, |s| match s {
                        DaemonStatus::Running => EvKind::StatusRunning,
                        DaemonStatus::Shutdown => EvKind::StatusShutdown,
                        _ => EvKind::Other("status".into()),
                    })
                }
            }
            SlotRx::Metrics(r) => {
                if all {
                    pump!(r, |m: mdns_sd::Metrics| EvKind::Metrics(m.into_iter().collect()))
                }
            }
        }
    }
    n
}

impl<'a> World<'a> {
    pub fn new(scn: &'a Scenario, alloc_base: usize) -> World<'a> {
        World {
            scn,
            now: 0,
            duts: vec![],
            peers: scn.peers.iter().map(|c| PeerRt { cfg: c.clone(), answered: 0, matched: 0, conflicts: HashMap::new() }).collect(),
            queue: BinaryHeap::new(),
            qevs: vec![],
            seq: 0,
            trace: Trace::default(),
            net_rng: Rng::new(scn.net.seed, 0x4E45),
            sched_rng: Rng::new(scn.sched.seed, 0x5C4D),
            seg_down: HashMap::new(),
            watchdog: Duration::from_secs(
                std::env::var("VERIF_WATCHDOG_S").ok().and_then(|s| s.parse().ok()).unwrap_or(5),
            ),
            capped: false,
            alloc_base,
        }
    }

    fn push(&mut self, at: u64, ev: QEv) {
        self.seq += 1;
        let id = self.qevs.len();
        self.qevs.push(Some(ev));
        self.queue.push(Reverse((at, self.seq, id)));
    }

    fn fatal(&mut self, kind: &str, d: usize, detail: String) {
        let step = self.trace.steps.len();
        self.trace.fatal.push(Fatal { kind: kind.to_string(), d, t: self.now, step, detail });
    }

    fn start_duts(&mut self) {
        for (d, cfg) in self.scn.duts.iter().enumerate() {
            let alloc_slot = if self.alloc_base == NO_COUNT { 0 } else { self.alloc_base + d };
            let node = Arc::new(Node::new(d, mix(self.scn.seed, 0xD07 + d as u64), to_interfaces(&cfg.ifs), alloc_slot));
            {
                let mut g = node.lock();
                g.now = (T0 as i64 + cfg.epoch_off) as u64;
                g.sock_v4_ok = cfg.v4;
                g.sock_v6_ok = cfg.v6;
                g.yield_enabled = cfg.yields;
                if let Some(j) = self.scn.sched.jitter.get(d) {
                    g.jitter_queue = j.iter().copied().collect();
                }
                g.jitter_seed = self.scn.sched.jitter_seed.map(|s| mix(s, d as u64));
                g.jitter_time_seed = self.scn.sched.jitter_time_seed;
            }
            crate::alloc::reset(alloc_slot);
            mdns_sd::verif::attach(Some(node.clone()));
            let daemon = catch_unwind(AssertUnwindSafe(ServiceDaemon::new));
            mdns_sd::verif::attach(None);
            let mut rt = DutRt {
                node: node.clone(),
                daemon: None,
                slots: BTreeMap::new(),
                ifs: cfg.ifs.clone(),
                epoch_off: cfg.epoch_off,
                deadline: None,
                pending: vec![],
                needs_step: false,
                stalled_until: 0,
                gone: false,
                steps_done: 0,
                yields_seen: 0,
                alloc_slot,
            };
            match daemon {
                Ok(Ok(dm)) => {
                    rt.daemon = Some(dm);
                    match node.wait_first_park(self.watchdog) {
                        Some(Phase::Parked(to)) => {
                            rt.deadline = to.map(|ms| self.now + ms);
                            let (a, _) = crate::alloc::read(alloc_slot);
                            self.trace.steps.push(Step {
                                idx: self.trace.steps.len(),
                                d,
                                t: self.now,
                                cause: Cause::Start,
                                n_rx: 0,
                                n_tx: 0,
                                n_ev: 0,
                                timeout: to,
                                exited: false,
                                wall_us: 0,
                                alloc_bytes: a,
                            });
                            rt.steps_done = 1;
                        }
                        Some(Phase::Exited { panicked }) => {
                            rt.gone = true;
                            let msg = node.lock().panic_msg.clone().unwrap_or_default();
                            self.fatal(if panicked { "panic" } else { "exit" }, d, format!("at start: {msg}"));
                        }
                        _ => {
                            rt.gone = true;
                            self.fatal("hang", d, "daemon did not park after start".into());
                        }
                    }
                }
                Ok(Err(e)) => {
                    rt.gone = true;
                    self.fatal("exit", d, format!("ServiceDaemon::new failed: {e}"));
                }
                Err(_) => {
                    rt.gone = true;
                    self.fatal("caller-panic", d, "ServiceDaemon::new panicked".into());
                }
            }
            self.duts.push(rt);
            self.trace.jitter_draws.push(vec![]);
        }
    }

    // ------------------------------------------------------------------ API calls

    fn exec_api(&mut self, op: &Op, op_idx: usize, at_yield: Option<(u32, String)>) {
        let Some(d) = op.dut() else { return };
        if d >= self.duts.len() {
            return;
        }
        let before_step = self.duts[d].steps_done;
        let Some(daemon) = self.duts[d].daemon.clone() else {
            return;
        };
        let node = self.duts[d].node.clone();
        mdns_sd::verif::attach(Some(node.clone()));
        let mut new_slot: Option<(u32, SlotRx)> = None;
        let res = catch_unwind(AssertUnwindSafe(|| -> Result<(), ApiOutcome> {
            let conv = |e: mdns_sd::Error| match e {
                mdns_sd::Error::Again => ApiOutcome::ErrAgain,
                mdns_sd::Error::DaemonShutdown => ApiOutcome::ErrShutdown,
                mdns_sd::Error::Msg(m) => ApiOutcome::ErrMsg(m),
                mdns_sd::Error::ParseIpAddr(m) => ApiOutcome::ErrParse(m),
                other => ApiOutcome::ErrMsg(other.to_string()),
            };
            match op {
                Op::Browse { ty, slot, .. } => {
                    let r = daemon.browse(ty).map_err(conv)?;
                    new_slot = Some((*slot, SlotRx::Browse(r)));
                }
                Op::BrowseCache { ty, slot, .. } => {
                    let r = daemon.browse_cache(ty).map_err(conv)?;
                    new_slot = Some((*slot, SlotRx::Browse(r)));
                }
                Op::StopBrowse { ty, .. } => daemon.stop_browse(ty).map_err(conv)?,
                Op::ResolveHost { host, timeout, slot, .. } => {
                    let r = daemon.resolve_hostname(host, *timeout).map_err(conv)?;
                    new_slot = Some((*slot, SlotRx::Host(r)));
                }
                Op::StopResolveHost { host, .. } => daemon.stop_resolve_hostname(host).map_err(conv)?,
                Op::Register { svc, .. } => {
                    let info = make_info(svc).map_err(|e| ApiOutcome::InfoRefused(e.to_string()))?;
                    daemon.register(info).map_err(conv)?;
                }
                Op::Unregister { fullname, slot, .. } => {
                    let r = daemon.unregister(fullname).map_err(conv)?;
                    new_slot = Some((*slot, SlotRx::Unreg(r)));
                }
                Op::Verify { instance, timeout_ms, .. } => {
                    daemon.verify(instance.clone(), Duration::from_millis(*timeout_ms)).map_err(conv)?
                }
                Op::Monitor { slot, .. } => {
                    let r = daemon.monitor().map_err(conv)?;
                    new_slot = Some((*slot, SlotRx::Mon(r)));
                }
                Op::Shutdown { slot, .. } => {
                    let r = daemon.shutdown().map_err(conv)?;
                    new_slot = Some((*slot, SlotRx::Status(r)));
                }
                Op::Status { slot, .. } => {
                    let r = daemon.status().map_err(conv)?;
                    new_slot = Some((*slot, SlotRx::Status(r)));
                }
                Op::Metrics { slot, .. } => {
                    let r = daemon.get_metrics().map_err(conv)?;
                    new_slot = Some((*slot, SlotRx::Metrics(r)));
                }
                Op::SetIpCheck { secs, .. } => daemon.set_ip_check_interval(*secs).map_err(conv)?,
                Op::EnableIf { kinds, .. } => {
                    daemon.enable_interface(kinds.iter().map(to_ifkind).collect::<Vec<IfKind>>()).map_err(conv)?
                }
                Op::DisableIf { kinds, .. } => {
                    daemon.disable_interface(kinds.iter().map(to_ifkind).collect::<Vec<IfKind>>()).map_err(conv)?
                }
                Op::AcceptUnsolicited { on, .. } => daemon.accept_unsolicited(*on).map_err(conv)?,
                Op::SetLoopV4 { on, .. } => daemon.set_multicast_loop_v4(*on).map_err(conv)?,
                Op::SetLoopV6 { on, .. } => daemon.set_multicast_loop_v6(*on).map_err(conv)?,
                Op::SetNameLenMax { n, .. } => daemon.set_service_name_len_max(*n).map_err(conv)?,
                Op::IncludeAppleP2p { on, .. } => daemon.include_apple_p2p(*on).map_err(conv)?,
                _ => {}
            }
            Ok(())
        }));
        mdns_sd::verif::attach(None);
        let outcome = match res {
            Ok(Ok(())) => ApiOutcome::Ok,
            Ok(Err(o)) => o,
            Err(_) => {
                let msg = crate::hashseed::take_panic_msg().unwrap_or_default();
                self.fatal("caller-panic", d, format!("{op:?}: {msg}"));
                ApiOutcome::Panic(msg)
            }
        };
        if let Some((slot, rx)) = new_slot {
            self.duts[d].slots.insert(slot, (rx, false));
        }
        if self.duts[d].gone {
            // no step will follow: read what the call left on its channel right away
            let step = self.trace.steps.len().saturating_sub(1);
            let now = self.now;
            drain_slots(&mut self.duts[d].slots, &mut self.trace.events, d, step, now, true);
        }
        let yield_op = if op_idx == usize::MAX { Some(op.clone()) } else { None };
        self.trace.api.push(ApiRes { op: op_idx, d, t: self.now, before_step, outcome, at_yield, yield_op });
        self.duts[d].needs_step = true;
    }

    // ------------------------------------------------------------------ ops

    fn exec_op(&mut self, idx: usize) {
        let op = self.scn.ops[idx].op.clone();
        if self.trace.op_times.len() <= idx {
            self.trace.op_times.resize(self.scn.ops.len(), None);
        }
        self.trace.op_times[idx] = Some(self.now);
        if op.is_api() {
            self.exec_api(&op, idx, None);
            return;
        }
        match op {
            Op::DropSlot { d, slot } => {
                if let Some(rt) = self.duts.get_mut(d) {
                    rt.slots.remove(&slot);
                }
            }
            Op::PeerSend { p, v4, sport, msg, to } => {
                let bytes = msg.encode();
                self.peer_send(p, v4, sport, bytes, &to);
            }
            Op::PeerRaw { p, v4, sport, hex, to } => {
                let bytes = wire::unhex(&hex);
                self.peer_send(p, v4, sport, bytes, &to);
            }
            Op::PeerSet { p, records } => {
                if let Some(pr) = self.peers.get_mut(p) {
                    let r = pr.cfg.responder.get_or_insert_with(ResponderCfg::default);
                    r.records = records;
                    r.active = true;
                    r.additionals = true;
                }
            }
            Op::PeerActive { p, on } => {
                if let Some(pr) = self.peers.get_mut(p) {
                    if let Some(r) = pr.cfg.responder.as_mut() {
                        r.active = on;
                    }
                }
            }
            Op::IfTable { d, ifs } => {
                if let Some(rt) = self.duts.get_mut(d) {
                    rt.node.lock().ifaddrs = to_interfaces(&ifs);
                    rt.ifs = ifs;
                }
            }
            Op::Stall { d, ms } => {
                if let Some(rt) = self.duts.get_mut(d) {
                    rt.stalled_until = self.now + ms;
                    self.trace.stats.stalls += 1;
                }
            }
            Op::Fault { d, kind, n } => {
                if let Some(rt) = self.duts.get_mut(d) {
                    let mut g = rt.node.lock();
                    match kind.as_str() {
                        "send_fail" => g.faults.send_fail = n,
                        "join_fail" => g.faults.join_fail = n,
                        "mcast_if_fail" => g.faults.mcast_if_fail = n,
                        "ifaddrs_fail" => g.faults.ifaddrs_fail = n,
                        "recv_wouldblock" => g.faults.recv_wouldblock_once = n > 0,
                        _ => {}
                    }
                }
            }
            Op::Partition { seg, on } => {
                self.seg_down.insert(seg, on);
            }
            Op::ClockJump { d, ms } => {
                if let Some(rt) = self.duts.get_mut(d) {
                    rt.epoch_off += ms;
                }
            }
            _ => {}
        }
    }

    // ------------------------------------------------------------------ network

    fn fault_window(&self) -> bool {
        self.scn.net.faults_until == 0 || self.now < self.scn.net.faults_until
    }

    /// Decide the fate of one delivery and schedule it. `bytes` as sent.
    #[allow(clippy::too_many_arguments)]
    fn deliver_to_dut(
        &mut self,
        src: Src,
        d: usize,
        if_index: u32,
        v4: bool,
        from: SocketAddr,
        unicast_dst: Option<IpAddr>,
        bytes: &[u8],
        seg: usize,
    ) {
        let net = &self.scn.net;
        let faults = self.fault_window();
        let mut fate = Fate::Delivered;
        if *self.seg_down.get(&seg).unwrap_or(&false) {
            fate = Fate::Partitioned;
            self.trace.stats.partitioned += 1;
        } else if faults && net.drop_pm > 0 && self.net_rng.chance(net.drop_pm) {
            fate = Fate::Dropped;
            self.trace.stats.dropped += 1;
        }
        // joined?
        if fate == Fate::Delivered && unicast_dst.is_none() {
            let g = self.duts[d].node.lock();
            let joined = if v4 {
                g.sock_v4_open
                    && self.duts[d].ifs.iter().any(|i| {
                        i.index == if_index
                            && i.addrs.iter().any(|a| a.ip.parse::<Ipv4Addr>().map(|x| g.joined_v4.contains(&x)).unwrap_or(false))
                    })
            } else {
                g.sock_v6_open && g.joined_v6.contains(&if_index)
            };
            if !joined {
                fate = Fate::NotJoined;
            }
        }
        if fate == Fate::Delivered && unicast_dst.is_some() {
            let g = self.duts[d].node.lock();
            if (v4 && !g.sock_v4_open) || (!v4 && !g.sock_v6_open) {
                fate = Fate::NotJoined;
            }
        }
        let copies = if fate == Fate::Delivered && faults && net.dup_pm > 0 && self.net_rng.chance(net.dup_pm) {
            self.trace.stats.duplicated += 1;
            2 + self.net_rng.below(2) as usize
        } else {
            1
        };
        let mut first_id = None;
        for c in 0..copies {
            let mut delay = net.base_ms;
            if net.jitter_ms > 0 {
                delay += self.net_rng.below(net.jitter_ms + 1);
            }
            if faults && net.late_pm > 0 && self.net_rng.chance(net.late_pm) {
                delay += self.net_rng.below(net.late_max_ms.max(1) + 1);
                self.trace.stats.late += 1;
            }
            if c > 0 {
                delay += self.net_rng.below(net.late_max_ms.max(50) + 1);
            }
            let mut b = bytes.to_vec();
            let mut corrupted = false;
            if fate == Fate::Delivered && faults && net.corrupt_pm > 0 && self.net_rng.chance(net.corrupt_pm) {
                corrupt(&mut b, &mut self.net_rng);
                corrupted = true;
                self.trace.stats.corrupted += 1;
            }
            let id = self.trace.rx.len();
            let msg = wire::parse(&b[..b.len().min(wire::MAX_PKT)]).ok();
            self.trace.rx.push(Rx {
                id,
                src: src.clone(),
                d,
                if_index,
                v4,
                from,
                unicast: unicast_dst.is_some(),
                t_sent: self.now,
                t_arrive: self.now + delay,
                fate: fate.clone(),
                dup_of: if c > 0 { first_id } else { None },
                corrupted,
                bytes: b,
                msg,
                step: None,
                t_read: None,
            });
            if c == 0 {
                first_id = Some(id);
            }
            if fate == Fate::Delivered {
                self.push(self.now + delay, QEv::Deliver { d, rx: id });
            }
        }
    }

    /// Multicast from a source on segment `seg` to all DUT interfaces on the segment.
    fn mcast_to_duts(&mut self, src: Src, seg: usize, v4: bool, from: SocketAddr, bytes: &[u8], skip_self: Option<usize>) {
        let mut targets = vec![];
        for (d, rt) in self.duts.iter().enumerate() {
            if rt.gone {
                continue;
            }
            if Some(d) == skip_self {
                continue;
            }
            for i in &rt.ifs {
                if i.seg == seg && i.up {
                    let has_family = i.addrs.iter().any(|a| a.ip.parse::<IpAddr>().map(|x| x.is_ipv4() == v4).unwrap_or(false));
                    if has_family {
                        targets.push((d, i.index));
                    }
                }
            }
        }
        for (d, idx) in targets {
            self.deliver_to_dut(src.clone(), d, idx, v4, from, None, bytes, seg);
        }
    }

    fn peer_send(&mut self, p: usize, v4: bool, sport: u16, bytes: Vec<u8>, to: &Dest) {
        let Some(pr) = self.peers.get(p) else { return };
        let seg = pr.cfg.seg;
        let ip: Option<IpAddr> = if v4 {
            pr.cfg.v4.as_ref().and_then(|s| s.parse().ok())
        } else {
            pr.cfg.v6.as_ref().and_then(|s| s.parse().ok())
        };
        let Some(ip) = ip else { return };
        let from = SocketAddr::new(ip, sport);
        match to {
            Dest::Mcast => self.mcast_to_duts(Src::Peer(p), seg, v4, from, &bytes, None),
            Dest::Unicast { d } => {
                let Some(rt) = self.duts.get(*d) else { return };
                let tgt = rt.ifs.iter().find(|i| i.seg == seg && i.up).and_then(|i| {
                    i.addrs
                        .iter()
                        .filter_map(|a| a.ip.parse::<IpAddr>().ok())
                        .find(|x| x.is_ipv4() == v4)
                        .map(|x| (i.index, x))
                });
                if let Some((idx, dst)) = tgt {
                    self.deliver_to_dut(Src::Peer(p), *d, idx, v4, from, Some(dst), &bytes, seg);
                }
            }
        }
    }

    /// Route what DUT d sent during its last step.
    fn route_egress(&mut self, d: usize, step: usize, egress: Vec<Egress>) -> usize {
        let n = egress.len();
        for e in egress {
            let ifs = self.duts[d].ifs.clone();
            let is_mcast = match e.dest.ip() {
                IpAddr::V4(a) => a == GROUP_V4,
                IpAddr::V6(a) => a == GROUP_V6,
            };
            let (if_index, src_ip): (Option<u32>, Option<IpAddr>) = if e.is_v4 {
                match e.via_v4 {
                    Some(via) => {
                        let i = ifs.iter().find(|i| i.addrs.iter().any(|a| a.ip.parse::<Ipv4Addr>().ok() == Some(via)));
                        (i.map(|i| i.index), Some(IpAddr::V4(via)))
                    }
                    None => (None, None),
                }
            } else {
                // link-local multicast: the scope id of the destination selects the interface
                let scope = match e.dest {
                    SocketAddr::V6(a) if a.scope_id() != 0 => Some(a.scope_id()),
                    _ => None,
                };
                match scope.or(e.via_v6) {
                    Some(idx) => {
                        let i = ifs.iter().find(|i| i.index == idx);
                        let ip = i.and_then(|i| {
                            i.addrs.iter().filter_map(|a| a.ip.parse::<Ipv6Addr>().ok()).next().map(IpAddr::V6)
                        });
                        (i.map(|i| i.index), ip)
                    }
                    None => (None, None),
                }
            };
            let (msg, malformed) = match wire::parse_strict(&e.bytes) {
                Ok(m) => (Some(m), None),
                Err(err) => (wire::parse(&e.bytes).ok(), Some(err)),
            };
            let tx_idx = self.trace.tx.len();
            if let Some(m) = &malformed {
                self.fatal("malformed-egress", d, format!("tx#{tx_idx}: {m}: {}", wire::hex(&e.bytes[..e.bytes.len().min(200)])));
            }
            self.trace.tx.push(Tx {
                idx: tx_idx,
                d,
                t: self.now,
                step,
                if_index,
                v4: e.is_v4,
                dest: e.dest,
                mcast: is_mcast,
                bytes: e.bytes.clone(),
                msg,
                malformed,
            });
            self.trace.stats.tx += 1;
            let Some(idx) = if_index else { continue };
            let Some(seg) = ifs.iter().find(|i| i.index == idx).map(|i| i.seg) else { continue };
            let from = SocketAddr::new(src_ip.unwrap_or(IpAddr::V4(Ipv4Addr::UNSPECIFIED)), 5353);
            if is_mcast {
                // other DUTs (and own other interfaces on the same segment)
                self.mcast_to_duts(Src::Dut(d), seg, e.is_v4, from, &e.bytes, Some(d));
                // loop-back to the sender itself, on the sending interface
                if self.scn.net.self_loop {
                    self.deliver_to_dut(Src::Dut(d), d, idx, e.is_v4, from, None, &e.bytes, seg);
                }
                // peers on the segment
                let peers: Vec<usize> = self
                    .peers
                    .iter()
                    .enumerate()
                    .filter(|(_, p)| p.cfg.seg == seg && if e.is_v4 { p.cfg.v4.is_some() } else { p.cfg.v6.is_some() })
                    .map(|(i, _)| i)
                    .collect();
                for p in peers {
                    if *self.seg_down.get(&seg).unwrap_or(&false) {
                        continue;
                    }
                    if self.fault_window() && self.scn.net.drop_pm > 0 && self.net_rng.chance(self.scn.net.drop_pm) {
                        self.trace.stats.dropped += 1;
                        continue;
                    }
                    let at = self.now + self.scn.net.base_ms;
                    self.push(at, QEv::PeerGet { p, from_d: d, tx: tx_idx, v4: e.is_v4, unicast: false });
                }
            } else {
                // unicast: to a peer that owns the destination address
                let dst = e.dest.ip();
                let p = self.peers.iter().position(|p| {
                    p.cfg.v4.as_ref().and_then(|s| s.parse::<IpAddr>().ok()) == Some(dst)
                        || p.cfg.v6.as_ref().and_then(|s| s.parse::<IpAddr>().ok()) == Some(dst)
                });
                if let Some(p) = p {
                    let at = self.now + self.scn.net.base_ms;
                    self.push(at, QEv::PeerGet { p, from_d: d, tx: tx_idx, v4: e.is_v4, unicast: true });
                }
            }
        }
        n
    }

    fn peer_get(&mut self, p: usize, from_d: usize, tx: usize, v4: bool, unicast: bool) {
        self.trace.peer_rx.push(PeerRx { p, t: self.now, from_d, tx, unicast, v4 });
        let Some(msg) = self.trace.tx[tx].msg.clone() else { return };
        if msg.is_response() || unicast {
            return;
        }
        let Some(resp) = self.peers[p].cfg.responder.clone() else { return };
        if !resp.active {
            return;
        }
        // conflicter: claim the names the DUT is probing for, with different data
        if resp.conflict_probes > 0 && !msg.authorities.is_empty() {
            let mut out = Msg::response();
            for a in &msg.authorities {
                // at most `conflict_probes` contested probes in total (a peer that contests every new name for ever
                // legitimately keeps the DUT renaming for ever)
                let key = b"total".to_vec();
                let n = self.peers[p].conflicts.entry(key).or_insert(0);
                if *n >= resp.conflict_probes {
                    continue;
                }
                match &a.rdata {
                    RData::Srv { port, target, .. } => {
                        *n += 1;
                        out.answers.push(Rec::srv(&a.name, target, port.wrapping_add(1), 120, true));
                    }
                    RData::A(ip) => {
                        *n += 1;
                        out.answers.push(Rec::a(&a.name, [ip[0], ip[1], ip[2], ip[3].wrapping_add(1)], 120, true));
                    }
                    _ => {}
                }
            }
            if !out.answers.is_empty() {
                let at = self.now + resp.delay_ms;
                self.push(at, QEv::PeerAuto { p, v4, msg: out });
            }
        }
        let mut out = Msg::response();
        for q in &msg.questions {
            for r in &resp.records {
                if r.name.eq_ci(&q.name) && (q.ty == wire::T_ANY || q.ty == r.ty) {
                    if resp.honor_known_answers
                        && msg.answers.iter().any(|k| k.same_data(r) && k.ttl as u64 * 2 > r.ttl as u64)
                    {
                        continue;
                    }
                    if !out.answers.contains(r) {
                        out.answers.push(r.clone());
                    }
                }
            }
        }
        if out.answers.is_empty() {
            return;
        }
        self.peers[p].matched += 1;
        if self.peers[p].matched <= resp.skip_first {
            return;
        }
        if let Some(mx) = resp.max_answers {
            if self.peers[p].answered >= mx {
                return;
            }
        }
        self.peers[p].answered += 1;
        if resp.additionals {
            let mut extra: Vec<Rec> = vec![];
            let mut hosts = vec![];
            for a in &out.answers {
                match &a.rdata {
                    RData::Ptr(t) => {
                        for r in &resp.records {
                            if r.name.eq_ci(t) && (r.ty == wire::T_SRV || r.ty == wire::T_TXT) {
                                if let RData::Srv { target, .. } = &r.rdata {
                                    hosts.push(target.clone());
                                }
                                extra.push(r.clone());
                            }
                        }
                    }
                    RData::Srv { target, .. } => hosts.push(target.clone()),
                    _ => {}
                }
            }
            for h in hosts {
                for r in &resp.records {
                    if r.name.eq_ci(&h) && (r.ty == wire::T_A || r.ty == wire::T_AAAA) {
                        extra.push(r.clone());
                    }
                }
            }
            for r in extra {
                if !out.answers.contains(&r) && !out.additionals.contains(&r) {
                    out.additionals.push(r);
                }
            }
        }
        let at = self.now + resp.delay_ms;
        self.push(at, QEv::PeerAuto { p, v4, msg: out });
    }

    // ------------------------------------------------------------------ stepping

    fn node_time(&self, d: usize) -> u64 {
        (T0 as i64 + self.now as i64 + self.duts[d].epoch_off) as u64
    }

    fn step(&mut self, d: usize, cause: Cause) {
        if self.duts[d].gone {
            return;
        }
        let node = self.duts[d].node.clone();
        let t_node = self.node_time(d);
        let step_idx = self.trace.steps.len();
        let n_rx;
        {
            let mut g = node.lock();
            g.now = t_node;
            g.drift_acc = 0;
            // move arrived datagrams into the socket queues
            let pend = std::mem::take(&mut self.duts[d].pending);
            let take_n = if self.scn.sched.one_per_step { 1.min(pend.len()) } else { pend.len() };
            let mut it = pend.into_iter();
            for dg in it.by_ref().take(take_n) {
                if dg.src.is_ipv4() {
                    g.rx4.push_back(dg);
                } else {
                    g.rx6.push_back(dg);
                }
            }
            self.duts[d].pending = it.collect();
            let mut keys = vec![];
            if !g.rx4.is_empty() {
                keys.push(4usize);
            }
            if !g.rx6.is_empty() {
                keys.push(6usize);
            }
            if self.scn.sched.v6_first {
                keys.reverse();
            }
            g.ready = keys;
            g.signals = 0;
            g.egress.clear();
            g.consumed_rx.clear();
        }
        let (alloc0, _) = crate::alloc::read(self.duts[d].alloc_slot);
        let wall = Instant::now();
        let mut timeout = None;
        let mut exited = false;
        let ev_before = self.trace.events.len();
        loop {
            let now = self.now;
            let ph = {
                let slots = &mut self.duts[d].slots;
                let events = &mut self.trace.events;
                node.release_and_wait(self.watchdog, || {
                    drain_slots(slots, events, d, step_idx, now, false);
                })
            };
            match ph {
                None => {
                    self.fatal("hang", d, format!("step did not finish within {:?}", self.watchdog));
                    self.duts[d].gone = true;
                    exited = true;
                    self.trace.final_phase[d] = "hung".into();
                    break;
                }
                Some(Phase::Yield(site)) => {
                    self.trace.stats.yields += 1;
                    let nth = self.duts[d].yields_seen;
                    self.duts[d].yields_seen += 1;
                    let acts: Vec<Op> = self
                        .scn
                        .yield_plan
                        .iter()
                        .filter(|y| y.d == d && y.nth == nth)
                        .flat_map(|y| y.ops.clone())
                        .collect();
                    for op in acts {
                        if op.is_api() {
                            self.exec_api(&op, usize::MAX, Some((nth, site.to_string())));
                        } else if let Op::DropSlot { d: dd, slot } = op {
                            if let Some(rt) = self.duts.get_mut(dd) {
                                rt.slots.remove(&slot);
                            }
                        }
                    }
                    continue;
                }
                Some(Phase::Parked(to)) => {
                    timeout = to;
                    break;
                }
                Some(Phase::Exited { panicked }) => {
                    exited = true;
                    self.duts[d].gone = true;
                    if panicked {
                        let msg = node.lock().panic_msg.clone().unwrap_or_default();
                        self.fatal("panic", d, msg);
                        self.trace.final_phase[d] = "panicked".into();
                    } else {
                        self.trace.final_phase[d] = "exited".into();
                    }
                    break;
                }
                Some(_) => {
                    break;
                }
            }
        }
        let wall_us = wall.elapsed().as_micros() as u64;
        let (alloc1, _) = crate::alloc::read(self.duts[d].alloc_slot);
        let (egress, consumed, leftover, signals) = {
            let mut g = node.lock();
            let e = std::mem::take(&mut g.egress);
            let c = std::mem::take(&mut g.consumed_rx);
            let left = !g.rx4.is_empty() || !g.rx6.is_empty();
            (e, c, left, g.signals)
        };
        n_rx = consumed.len();
        for id in consumed {
            if let Some(r) = self.trace.rx.get_mut(id) {
                r.step = Some(step_idx);
                r.t_read = Some(self.now);
                if r.bytes.len() > wire::MAX_PKT {
                    self.trace.stats.truncated_rx += 1;
                }
            }
        }
        self.trace.stats.rx_delivered += n_rx as u64;
        let n_tx = self.route_egress(d, step_idx, egress);
        let now = self.now;
        drain_slots(&mut self.duts[d].slots, &mut self.trace.events, d, step_idx, now, true);
        // events are drained while the daemon runs (bounded channels): the order across channels within one step depends
        // on when the drains happened; make it canonical (by channel, order within a channel kept)
        self.trace.events[ev_before..].sort_by_key(|e| e.slot);
        let n_ev = self.trace.events.len() - ev_before;
        self.trace.steps.push(Step {
            idx: step_idx,
            d,
            t: self.now,
            cause,
            n_rx,
            n_tx,
            n_ev,
            timeout,
            exited,
            wall_us,
            alloc_bytes: alloc1.saturating_sub(alloc0),
        });
        self.trace.stats.steps += 1;
        let rt = &mut self.duts[d];
        rt.steps_done += 1;
        rt.needs_step = (leftover || !rt.pending.is_empty() || signals > 0) && !exited;
        let lat = if self.scn.sched.max_latency > 0 {
            let l = self.sched_rng.below(self.scn.sched.max_latency + 1);
            self.trace.stats.latency_injected += l;
            l
        } else {
            0
        };
        rt.deadline = if exited { None } else { timeout.map(|ms| self.now + ms + lat) };
        if !exited && self.scn.sched.spurious_pm > 0 && self.sched_rng.chance(self.scn.sched.spurious_pm) {
            let span = timeout.unwrap_or(1000).max(1);
            let at = self.now + 1 + self.sched_rng.below(span);
            self.push(at, QEv::Spurious { d });
        }
    }

    fn due(&self, d: usize) -> bool {
        let rt = &self.duts[d];
        if rt.gone {
            return false;
        }
        if rt.stalled_until > self.now {
            return false;
        }
        rt.needs_step || !rt.pending.is_empty() || rt.deadline.map(|t| t <= self.now).unwrap_or(false)
    }

    fn next_node_time(&self) -> Option<u64> {
        let mut best: Option<u64> = None;
        for rt in &self.duts {
            if rt.gone {
                continue;
            }
            let mut t: Option<u64> = rt.deadline;
            if rt.needs_step || !rt.pending.is_empty() {
                t = Some(self.now);
            }
            if let Some(mut t) = t {
                if rt.stalled_until > t {
                    t = rt.stalled_until;
                }
                best = Some(best.map_or(t, |b| b.min(t)));
            }
        }
        best
    }

    pub fn run(mut self) -> Trace {
        self.trace.final_phase = vec!["parked".into(); self.scn.duts.len()];
        self.trace.op_times = vec![None; self.scn.ops.len()];
        self.start_duts();
        for (i, o) in self.scn.ops.iter().enumerate() {
            self.push(o.at, QEv::Op(i));
        }
        let horizon = self.scn.horizon_ms;
        if self.scn.sched.tick_ms > 0 {
            let t = self.scn.sched.tick_ms;
            self.push(t, QEv::Tick);
        }
        loop {
            let tq = self.queue.peek().map(|Reverse((t, _, _))| *t);
            let tn = self.next_node_time();
            let t = match (tq, tn) {
                (None, None) => break,
                (Some(a), None) => a,
                (None, Some(b)) => b,
                (Some(a), Some(b)) => a.min(b),
            };
            let t = t.max(self.now);
            if t > horizon {
                break;
            }
            self.now = t;
            // 1. everything scheduled for this instant
            while let Some(Reverse((tt, _, id))) = self.queue.peek().copied() {
                if tt > self.now {
                    break;
                }
                self.queue.pop();
                let Some(ev) = self.qevs[id].take() else { continue };
                match ev {
                    QEv::Op(i) => self.exec_op(i),
                    QEv::Deliver { d, rx } => {
                        let r = &self.trace.rx[rx];
                        let dst = if r.unicast {
                            self.duts[d]
                                .ifs
                                .iter()
                                .find(|i| i.index == r.if_index)
                                .and_then(|i| {
                                    i.addrs.iter().filter_map(|a| a.ip.parse::<IpAddr>().ok()).find(|x| x.is_ipv4() == r.v4)
                                })
                                .unwrap_or(IpAddr::V4(Ipv4Addr::UNSPECIFIED))
                        } else if r.v4 {
                            IpAddr::V4(GROUP_V4)
                        } else {
                            IpAddr::V6(GROUP_V6)
                        };
                        let from = match r.from {
                            SocketAddr::V6(a) => SocketAddr::V6(SocketAddrV6::new(*a.ip(), a.port(), 0, r.if_index)),
                            SocketAddr::V4(a) => SocketAddr::V4(SocketAddrV4::new(*a.ip(), a.port())),
                        };
                        let dg = Dgram { bytes: r.bytes.clone(), src: from, dst, if_index: r.if_index, rx_id: rx };
                        if !self.duts[d].gone {
                            self.duts[d].pending.push(dg);
                        }
                    }
                    QEv::PeerGet { p, from_d, tx, v4, unicast } => self.peer_get(p, from_d, tx, v4, unicast),
                    QEv::PeerAuto { p, v4, msg } => {
                        let bytes = msg.encode();
                        self.peer_send(p, v4, 5353, bytes, &Dest::Mcast);
                    }
                    QEv::Tick => {
                        for d in 0..self.duts.len() {
                            if !self.duts[d].gone && self.duts[d].stalled_until <= self.now && !self.due(d) {
                                self.trace.stats.spurious += 1;
                                self.step(d, Cause::Spurious);
                            }
                        }
                        let nt = self.now + self.scn.sched.tick_ms;
                        self.push(nt, QEv::Tick);
                    }
                    QEv::Spurious { d } => {
                        if !self.duts[d].gone && self.duts[d].stalled_until <= self.now {
                            self.trace.stats.spurious += 1;
                            self.step(d, Cause::Spurious);
                        }
                    }
                }
            }
            // 2. step every node that is due, until none is due at this instant
            let mut guard = 0;
            loop {
                let mut order: Vec<usize> = (0..self.duts.len()).filter(|&d| self.due(d)).collect();
                if order.is_empty() {
                    break;
                }
                if order.len() > 1 {
                    self.sched_rng.shuffle(&mut order);
                }
                for d in order {
                    if !self.due(d) {
                        continue;
                    }
                    let rt = &self.duts[d];
                    let cause = if !rt.pending.is_empty() {
                        Cause::Rx
                    } else if rt.needs_step {
                        Cause::Signal
                    } else {
                        Cause::Timeout
                    };
                    self.step(d, cause);
                }
                guard += 1;
                if self.trace.stats.steps >= self.scn.max_steps || guard > 10_000 {
                    self.capped = true;
                    break;
                }
                // new deliveries at this same instant? (base latency 0)
                if self.queue.peek().map(|Reverse((tt, _, _))| *tt <= self.now).unwrap_or(false) {
                    break;
                }
            }
            if self.capped {
                let steps = self.trace.stats.steps;
                self.fatal("step-cap", 0, format!("{steps} steps"));
                break;
            }
        }
        self.trace.stats.sim_ms = self.now;
        // final drain and shutdown of what is still alive
        self.finish();
        self.trace
    }

    fn finish(&mut self) {
        // a last look at every channel (a daemon that has exited takes no further step)
        for d in 0..self.duts.len() {
            let step = self.trace.steps.len().saturating_sub(1);
            let now = self.now;
            drain_slots(&mut self.duts[d].slots, &mut self.trace.events, d, step, now, true);
        }
        for d in 0..self.duts.len() {
            let g = self.duts[d].node.lock();
            self.trace.jitter_draws[d] = g.jitter_draws.clone();
            for (i, f) in g.faults_fired.iter().enumerate() {
                self.trace.stats.seam_faults[i] += f;
            }
        }
        // Stop the daemons that are still running (outside the judged history).
        for d in 0..self.duts.len() {
            if self.duts[d].gone {
                continue;
            }
            let node = self.duts[d].node.clone();
            node.lock().yield_enabled = false;
            if let Some(dm) = self.duts[d].daemon.take() {
                let r = dm.shutdown();
                let mut tries = 0;
                loop {
                    let slots = &mut self.duts[d].slots;
                    let mut sink = vec![];
                    let ph = node.release_and_wait(self.watchdog, || {
                        drain_slots(slots, &mut sink, d, 0, 0, false);
                    });
                    match ph {
                        Some(Phase::Exited { .. }) | None => break,
                        _ => {}
                    }
                    tries += 1;
                    if tries > 200 {
                        break;
                    }
                    if r.is_err() {
                        // queue full: let it drain and try again
                        let _ = dm.shutdown();
                    }
                }
            }
            self.duts[d].slots.clear();
        }
    }
}

fn corrupt(b: &mut Vec<u8>, rng: &mut Rng) {
    if b.is_empty() {
        return;
    }
    match rng.below(6) {
        0 => {
            let i = rng.below(b.len() as u64) as usize;
            b[i] ^= 1 << rng.below(8);
        }
        1 => {
            let i = rng.below(b.len() as u64) as usize;
            b[i] = rng.below(256) as u8;
        }
        2 => {
            let n = rng.below(b.len() as u64) as usize;
            b.truncate(n);
        }
        3 => {
            let n = rng.below(64) as usize + 1;
            let extra = rng.bytes(n);
            b.extend_from_slice(&extra);
        }
        4 => {
            // header count rewrite
            if b.len() >= 12 {
                let f = 4 + 2 * rng.below(4) as usize;
                let v = [0u16, 1, 2, 255, 65535][rng.below(5) as usize];
                b[f..f + 2].copy_from_slice(&v.to_be_bytes());
            }
        }
        _ => {
            // several bit flips
            for _ in 0..(1 + rng.below(8)) {
                let i = rng.below(b.len() as u64) as usize;
                b[i] ^= 1 << rng.below(8);
            }
        }
    }
}

/// Execute a scenario on a fresh driver thread whose hash seed derives from the scenario seed.
pub fn execute(scn: &Scenario, alloc_base: usize) -> Trace {
    let scn2 = scn.clone();
    let seed = mix(scn.seed, 0xD21);
    let h = std::thread::Builder::new()
        .name("driver".into())
        .spawn(move || {
            crate::hashseed::set_thread_seed(seed);
            World::new(&scn2, alloc_base).run()
        })
        .expect("spawn driver");
    match h.join() {
        Ok(t) => t,
        Err(_) => {
            let mut t = Trace::default();
            t.fatal.push(Fatal {
                kind: "harness-panic".into(),
                d: 0,
                t: 0,
                step: 0,
                detail: crate::hashseed::last_global_panic().unwrap_or_default(),
            });
            t
        }
    }
}
