//! Counting global allocator with per-thread slots (C01/C20 memory clauses).

use std::alloc::{GlobalAlloc, Layout, System};
use std::cell::Cell;
use std::sync::atomic::{AtomicU64, Ordering};

pub const SLOTS: usize = 256;

#[allow(clippy::declare_interior_mutable_const)]
const Z: AtomicU64 = AtomicU64::new(0);
static ALLOCATED: [AtomicU64; SLOTS] = [Z; SLOTS];
static FREED: [AtomicU64; SLOTS] = [Z; SLOTS];

thread_local! {
    static SLOT: Cell<usize> = const { Cell::new(0) };
}

pub struct Counting;

unsafe impl GlobalAlloc for Counting {
    unsafe fn alloc(&self, l: Layout) -> *mut u8 {
        let s = SLOT.try_with(|s| s.get()).unwrap_or(0);
        if s != 0 {
            ALLOCATED[s].fetch_add(l.size() as u64, Ordering::Relaxed);
        }
        unsafe { System.alloc(l) }
    }
    unsafe fn dealloc(&self, p: *mut u8, l: Layout) {
        let s = SLOT.try_with(|s| s.get()).unwrap_or(0);
        if s != 0 {
            FREED[s].fetch_add(l.size() as u64, Ordering::Relaxed);
        }
        unsafe { System.dealloc(p, l) }
    }
    unsafe fn realloc(&self, p: *mut u8, l: Layout, new: usize) -> *mut u8 {
        let s = SLOT.try_with(|s| s.get()).unwrap_or(0);
        if s != 0 {
            ALLOCATED[s].fetch_add(new as u64, Ordering::Relaxed);
            FREED[s].fetch_add(l.size() as u64, Ordering::Relaxed);
        }
        unsafe { System.realloc(p, l, new) }
    }
}

/// Attribute this thread's allocations to `slot` (1..SLOTS-1); 0 = not counted.
pub fn set_thread_slot(slot: usize) {
    SLOT.with(|s| s.set(slot % SLOTS));
}

pub fn reset(slot: usize) {
    ALLOCATED[slot % SLOTS].store(0, Ordering::Relaxed);
    FREED[slot % SLOTS].store(0, Ordering::Relaxed);
}

/// (bytes allocated so far, bytes freed so far) by threads of the slot.
pub fn read(slot: usize) -> (u64, u64) {
    (ALLOCATED[slot % SLOTS].load(Ordering::Relaxed), FREED[slot % SLOTS].load(Ordering::Relaxed))
}
