//! The simulated operating system of one daemon under test (DUT): implements the
//! crate's `verif::Env` seam. Exactly one of {driver, daemon thread} runs at a time.

use if_addrs::Interface;
use mdns_sd::verif::Env;
use socket_pktinfo::PktInfo;
use std::collections::{BTreeSet, VecDeque};
use std::io;
use std::net::{IpAddr, Ipv4Addr, Ipv6Addr, SocketAddr};
use std::sync::{Condvar, Mutex, MutexGuard};
use std::time::{Duration, Instant};

use crate::hashseed;

#[derive(Clone, Debug)]
pub struct Dgram {
    pub bytes: Vec<u8>,
    pub src: SocketAddr,
    pub dst: IpAddr,
    pub if_index: u32,
    /// id of the delivery in the trace
    pub rx_id: usize,
}

#[derive(Clone, Debug)]
pub struct Egress {
    pub is_v4: bool,
    /// interface selected by the preceding set_multicast_if (v4: address, v6: index)
    pub via_v4: Option<Ipv4Addr>,
    pub via_v6: Option<u32>,
    pub dest: SocketAddr,
    pub bytes: Vec<u8>,
}

#[derive(Clone, Copy, Debug, PartialEq, Eq)]
pub enum Phase {
    NotStarted,
    Running,
    Parked(Option<u64>),
    Yield(&'static str),
    Exited { panicked: bool },
}

#[derive(Default, Clone, Debug)]
pub struct FaultKnobs {
    /// next N send_to calls fail with ENOBUFS
    pub send_fail: u32,
    /// next N joins fail
    pub join_fail: u32,
    /// next N set_multicast_if calls fail with a non-AddrNotAvailable error
    pub mcast_if_fail: u32,
    /// get_if_addrs fails (returns Err) while > 0
    pub ifaddrs_fail: u32,
    /// recv returns WouldBlock once before data (buggify)
    pub recv_wouldblock_once: bool,
}

pub struct NodeInner {
    pub phase: Phase,
    pub go: bool,
    pub now: u64,
    pub hash_seed: u64,
    pub ifaddrs: Vec<Interface>,
    pub sock_v4_ok: bool,
    pub sock_v6_ok: bool,
    pub sock_v4_open: bool,
    pub sock_v6_open: bool,
    pub rx4: VecDeque<Dgram>,
    pub rx6: VecDeque<Dgram>,
    pub ready: Vec<usize>,
    pub consumed_rx: Vec<usize>,
    pub egress: Vec<Egress>,
    pub mcast_if_v4: Option<Ipv4Addr>,
    pub mcast_if_v6: Option<u32>,
    pub joined_v4: BTreeSet<Ipv4Addr>,
    pub joined_v6: BTreeSet<u32>,
    pub signals: u64,
    /// values handed to fastrand::u64 calls, in order; when empty, `jitter_default`
    pub jitter_queue: VecDeque<u64>,
    pub jitter_seed: Option<u64>,
    pub jitter_time_seed: Option<u64>,
    pub jitter_default: u64,
    pub jitter_draws: Vec<u64>,
    pub yield_enabled: bool,
    pub faults: FaultKnobs,
    pub faults_fired: [u64; 8],
    pub ifaddrs_calls: u64,
    pub panic_msg: Option<String>,
    /// ms the clock advances at each now_millis() read (intra-step drift); 0 = off
    pub drift_per_read: u64,
    pub drift_acc: u64,
}

pub const FF_SEND_FAIL: usize = 0;
pub const FF_JOIN_FAIL: usize = 1;
pub const FF_MCASTIF_FAIL: usize = 2;
pub const FF_MCASTIF_NOADDR: usize = 3;
pub const FF_IFADDRS_FAIL: usize = 4;
pub const FF_RECV_TRUNC: usize = 5;
pub const FF_RECV_WOULDBLOCK: usize = 6;

pub struct Node {
    pub id: usize,
    pub alloc_slot: usize,
    pub m: Mutex<NodeInner>,
    pub cv_node: Condvar,
    pub cv_driver: Condvar,
}

impl Node {
    pub fn new(id: usize, hash_seed: u64, ifaddrs: Vec<Interface>, alloc_slot: usize) -> Node {
        Node {
            id,
            alloc_slot,
            m: Mutex::new(NodeInner {
                phase: Phase::NotStarted,
                go: false,
                now: 0,
                hash_seed,
                ifaddrs,
                sock_v4_ok: true,
                sock_v6_ok: true,
                sock_v4_open: false,
                sock_v6_open: false,
                rx4: VecDeque::new(),
                rx6: VecDeque::new(),
                ready: vec![],
                consumed_rx: vec![],
                egress: vec![],
                mcast_if_v4: None,
                mcast_if_v6: None,
                joined_v4: BTreeSet::new(),
                joined_v6: BTreeSet::new(),
                signals: 0,
                jitter_queue: VecDeque::new(),
                jitter_seed: None,
                jitter_time_seed: None,
                jitter_default: 0,
                jitter_draws: vec![],
                yield_enabled: false,
                faults: FaultKnobs::default(),
                faults_fired: [0; 8],
                ifaddrs_calls: 0,
                panic_msg: None,
                drift_per_read: 0,
                drift_acc: 0,
            }),
            cv_node: Condvar::new(),
            cv_driver: Condvar::new(),
        }
    }

    pub fn lock(&self) -> MutexGuard<'_, NodeInner> {
        self.m.lock().unwrap_or_else(|e| e.into_inner())
    }

    fn hand_over(&self, phase: Phase) {
        let mut g = self.lock();
        g.phase = phase;
        self.cv_driver.notify_all();
        while !g.go {
            g = self.cv_node.wait(g).unwrap_or_else(|e| e.into_inner());
        }
        g.go = false;
        g.phase = Phase::Running;
    }

    /// Driver side: release the node and wait until it hands control back.
    /// `idle` is called while waiting (to drain bounded event channels).
    /// Returns the phase reached, or None on watchdog timeout (hang).
    pub fn release_and_wait(&self, watchdog: Duration, mut idle: impl FnMut()) -> Option<Phase> {
        let start = Instant::now();
        let mut g = self.lock();
        g.go = true;
        self.cv_node.notify_all();
        loop {
            if !g.go && g.phase != Phase::Running {
                return Some(g.phase);
            }
            if let Phase::Exited { .. } = g.phase {
                return Some(g.phase);
            }
            let (ng, to) = self
                .cv_driver
                .wait_timeout(g, Duration::from_micros(300))
                .unwrap_or_else(|e| e.into_inner());
            g = ng;
            if to.timed_out() {
                drop(g);
                idle();
                if start.elapsed() > watchdog {
                    return None;
                }
                g = self.lock();
            }
        }
    }

    /// Driver side: wait for the first park after the daemon thread was spawned.
    pub fn wait_first_park(&self, watchdog: Duration) -> Option<Phase> {
        let start = Instant::now();
        let mut g = self.lock();
        loop {
            match g.phase {
                Phase::Parked(_) | Phase::Exited { .. } | Phase::Yield(_) => return Some(g.phase),
                _ => {}
            }
            let (ng, _) = self
                .cv_driver
                .wait_timeout(g, Duration::from_millis(1))
                .unwrap_or_else(|e| e.into_inner());
            g = ng;
            if start.elapsed() > watchdog {
                return None;
            }
        }
    }
}

fn enobufs() -> io::Error {
    io::Error::from_raw_os_error(105)
}

impl Env for Node {
    fn thread_start(&self) {
        let seed = self.lock().hash_seed;
        hashseed::set_thread_seed(seed);
        crate::alloc::set_thread_slot(self.alloc_slot);
        let mut g = self.lock();
        g.phase = Phase::Running;
    }

    fn thread_exit(&self, panicking: bool) {
        let msg = if panicking { crate::hashseed::take_panic_msg() } else { None };
        let mut g = self.lock();
        g.panic_msg = msg;
        g.phase = Phase::Exited { panicked: panicking };
        g.go = false;
        self.cv_driver.notify_all();
    }

    fn now_millis(&self) -> u64 {
        let mut g = self.lock();
        if g.drift_per_read > 0 {
            g.drift_acc += g.drift_per_read;
        }
        g.now + g.drift_acc
    }

    fn rand_u64(&self, lo: u64, hi_excl: u64) -> u64 {
        let mut g = self.lock();
        let span = hi_excl.saturating_sub(lo).max(1);
        let v = match g.jitter_queue.pop_front() {
            Some(v) => v,
            None if g.jitter_time_seed.is_some() => crate::rng::mix(g.jitter_time_seed.unwrap(), g.now) % span,
            None => match g.jitter_seed {
                Some(s) => {
                    let n = g.jitter_draws.len() as u64;
                    crate::rng::mix(s, n) % span
                }
                None => g.jitter_default,
            },
        };
        let v = lo + (v % span);
        g.jitter_draws.push(v);
        v
    }

    fn get_if_addrs(&self) -> io::Result<Vec<Interface>> {
        let mut g = self.lock();
        g.ifaddrs_calls += 1;
        if g.faults.ifaddrs_fail > 0 {
            g.faults.ifaddrs_fail -= 1;
            g.faults_fired[FF_IFADDRS_FAIL] += 1;
            return Err(io::Error::from_raw_os_error(24));
        }
        Ok(g.ifaddrs.clone())
    }

    fn park(&self, timeout: Option<Duration>) {
        self.hand_over(Phase::Parked(timeout.map(|d| d.as_millis() as u64)));
    }

    fn ready_keys(&self) -> Vec<usize> {
        let mut g = self.lock();
        std::mem::take(&mut g.ready)
    }

    fn signal(&self) {
        let mut g = self.lock();
        g.signals += 1;
    }

    fn yield_point(&self, site: &'static str) {
        if self.lock().yield_enabled {
            self.hand_over(Phase::Yield(site));
        }
    }

    fn socket_open(&self, is_v4: bool) -> io::Result<()> {
        let mut g = self.lock();
        let ok = if is_v4 { g.sock_v4_ok } else { g.sock_v6_ok };
        if !ok {
            return Err(io::Error::from_raw_os_error(97)); // EAFNOSUPPORT
        }
        if is_v4 {
            g.sock_v4_open = true;
        } else {
            g.sock_v6_open = true;
        }
        Ok(())
    }

    fn join_v4(&self, _group: &Ipv4Addr, intf: &Ipv4Addr) -> io::Result<()> {
        let mut g = self.lock();
        if g.faults.join_fail > 0 {
            g.faults.join_fail -= 1;
            g.faults_fired[FF_JOIN_FAIL] += 1;
            return Err(enobufs());
        }
        if !g.ifaddrs.iter().any(|i| i.ip() == IpAddr::V4(*intf)) {
            return Err(io::Error::from_raw_os_error(99)); // EADDRNOTAVAIL
        }
        g.joined_v4.insert(*intf);
        Ok(())
    }

    fn join_v6(&self, _group: &Ipv6Addr, if_index: u32) -> io::Result<()> {
        let mut g = self.lock();
        if g.faults.join_fail > 0 {
            g.faults.join_fail -= 1;
            g.faults_fired[FF_JOIN_FAIL] += 1;
            return Err(enobufs());
        }
        if !g.ifaddrs.iter().any(|i| i.index == Some(if_index)) {
            return Err(io::Error::from_raw_os_error(19)); // ENODEV
        }
        g.joined_v6.insert(if_index);
        Ok(())
    }

    fn set_mcast_if_v4(&self, intf: &Ipv4Addr) -> io::Result<()> {
        let mut g = self.lock();
        if g.faults.mcast_if_fail > 0 {
            g.faults.mcast_if_fail -= 1;
            g.faults_fired[FF_MCASTIF_FAIL] += 1;
            return Err(enobufs());
        }
        if !g.ifaddrs.iter().any(|i| i.ip() == IpAddr::V4(*intf)) {
            g.faults_fired[FF_MCASTIF_NOADDR] += 1;
            return Err(io::Error::from_raw_os_error(99)); // EADDRNOTAVAIL -> AddrNotAvailable
        }
        g.mcast_if_v4 = Some(*intf);
        Ok(())
    }

    fn set_mcast_if_v6(&self, if_index: u32) -> io::Result<()> {
        let mut g = self.lock();
        if g.faults.mcast_if_fail > 0 {
            g.faults.mcast_if_fail -= 1;
            g.faults_fired[FF_MCASTIF_FAIL] += 1;
            return Err(enobufs());
        }
        if !g.ifaddrs.iter().any(|i| i.index == Some(if_index) && i.ip().is_ipv6()) {
            g.faults_fired[FF_MCASTIF_NOADDR] += 1;
            return Err(io::Error::from_raw_os_error(99));
        }
        g.mcast_if_v6 = Some(if_index);
        Ok(())
    }

    fn send_to(&self, is_v4: bool, buf: &[u8], dest: SocketAddr) -> io::Result<usize> {
        let mut g = self.lock();
        if g.faults.send_fail > 0 {
            g.faults.send_fail -= 1;
            g.faults_fired[FF_SEND_FAIL] += 1;
            return Err(enobufs());
        }
        let e = Egress { is_v4, via_v4: g.mcast_if_v4, via_v6: g.mcast_if_v6, dest, bytes: buf.to_vec() };
        g.egress.push(e);
        Ok(buf.len())
    }

    fn recv(&self, is_v4: bool, buf: &mut [u8]) -> io::Result<(usize, PktInfo)> {
        let mut g = self.lock();
        if g.faults.recv_wouldblock_once {
            g.faults.recv_wouldblock_once = false;
            g.faults_fired[FF_RECV_WOULDBLOCK] += 1;
            return Err(io::ErrorKind::WouldBlock.into());
        }
        let q = if is_v4 { &mut g.rx4 } else { &mut g.rx6 };
        match q.pop_front() {
            None => Err(io::ErrorKind::WouldBlock.into()),
            Some(d) => {
                let n = d.bytes.len().min(buf.len());
                buf[..n].copy_from_slice(&d.bytes[..n]);
                if n < d.bytes.len() {
                    g.faults_fired[FF_RECV_TRUNC] += 1;
                }
                g.consumed_rx.push(d.rx_id);
                Ok((n, PktInfo { if_index: d.if_index as u64, addr_src: d.src, addr_dst: d.dst }))
            }
        }
    }
}
