//! Counter-based PRNG streams. One integer (the run seed) decides everything:
//! every stream is splitmix64 keyed by (seed, stream id).

#[inline]
pub fn splitmix(mut z: u64) -> u64 {
    z = z.wrapping_add(0x9E37_79B9_7F4A_7C15);
    z = (z ^ (z >> 30)).wrapping_mul(0xBF58_476D_1CE4_E5B9);
    z = (z ^ (z >> 27)).wrapping_mul(0x94D0_49BB_1331_11EB);
    z ^ (z >> 31)
}

pub fn mix(a: u64, b: u64) -> u64 {
    splitmix(splitmix(a) ^ b.wrapping_mul(0xD6E8_FEB8_6659_FD93))
}

pub fn mix_str(a: u64, s: &str) -> u64 {
    let mut h = a;
    for b in s.bytes() {
        h = mix(h, b as u64);
    }
    h
}

#[derive(Clone, Debug)]
pub struct Rng {
    state: u64,
}

impl Rng {
    pub fn new(seed: u64, stream: u64) -> Self {
        Rng { state: mix(seed, stream) }
    }
    pub fn next_u64(&mut self) -> u64 {
        self.state = self.state.wrapping_add(0x9E37_79B9_7F4A_7C15);
        splitmix(self.state)
    }
    /// uniform in 0..n (n > 0)
    pub fn below(&mut self, n: u64) -> u64 {
        debug_assert!(n > 0);
        // multiply-shift; bias is irrelevant here
        ((self.next_u64() as u128 * n as u128) >> 64) as u64
    }
    pub fn range(&mut self, lo: u64, hi_incl: u64) -> u64 {
        lo + self.below(hi_incl - lo + 1)
    }
    pub fn chance(&mut self, per_mille: u32) -> bool {
        self.below(1000) < per_mille as u64
    }
    pub fn bool(&mut self) -> bool {
        self.next_u64() & 1 == 1
    }
    pub fn pick<'a, T>(&mut self, v: &'a [T]) -> &'a T {
        &v[self.below(v.len() as u64) as usize]
    }
    pub fn shuffle<T>(&mut self, v: &mut [T]) {
        for i in (1..v.len()).rev() {
            let j = self.below(i as u64 + 1) as usize;
            v.swap(i, j);
        }
    }
    pub fn bytes(&mut self, n: usize) -> Vec<u8> {
        let mut v = Vec::with_capacity(n);
        while v.len() < n {
            let x = self.next_u64().to_le_bytes();
            let k = (n - v.len()).min(8);
            v.extend_from_slice(&x[..k]);
        }
        v
    }
}
