#!/bin/bash
# tools/run_seeds.sh [seed-id-prefix]: applies every kept seeded change to /repo in turn, runs the quick check that is
# recorded as detecting it, reverts, and reports. Evidence files are restored afterwards. Expect "detected" everywhere.
cd "$(dirname "$0")/.."
git -C /repo diff --quiet || { echo "/repo has uncommitted changes"; exit 2; }
rm -rf /tmp/evidence.keep; cp -r evidence /tmp/evidence.keep
for d in seeded/${1:-}*/; do
  id=$(basename $d)
  chk=$(python3 -c "import json;print(json.load(open('$d/meta.json'))['detected_by']['check'])")
  p=$d/patch.diff; [ -f $d/patch.rebased.diff ] && p=$d/patch.rebased.diff
  if ! git -C /repo apply --check $PWD/$p 2>/dev/null; then echo "$id: PATCH DOES NOT APPLY"; continue; fi
  git -C /repo apply $PWD/$p
  ./check $chk quick > /tmp/seedrun.out 2>&1; rc=$?
  git -C /repo checkout -- .
  rule=$(grep -m1 "^violation:" /tmp/seedrun.out | sed 's/violation: rule=\([^ ]*\).*/\1/')
  if [ $rc = 1 ]; then echo "$id: detected by $chk ($rule)"; else echo "$id: NOT DETECTED by $chk (exit $rc)"; fi
done
rm -rf evidence; mv /tmp/evidence.keep evidence
