#!/bin/bash
# tools/run_sensitivity.sh [prefix]: applies each of the author's own one-line mutations in /verif/sensitivity to /repo in
# turn, runs the quick tier of the checks named in its .chk file, reverts, and prints the first violation per check.
# Every line must read "exit=1". (These complement /verif/seeded: they aim at rules that no seeded change had fired.)
cd "$(dirname "$0")/.."
for d in sensitivity/${1:-}*.diff; do
  n=$(basename $d .diff); chk=$(cat sensitivity/$n.chk)
  out=$(tools/try_seed.sh $PWD/$d $chk 2>&1)
  echo "### $n [$chk]"
  echo "$out" | grep -E "^== |^violation:" | cut -c1-260 | awk '/^== /{print} /^violation/{if(!s){print}; s=1} /^== /{s=0}'
done
