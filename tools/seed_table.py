#!/usr/bin/env python3
"""Prints the table of seeded changes from /verif/seeded/*/meta.json."""
import json, glob
print("| seed | what the change does | detected by | rule | at first attempt |")
print("|---|---|---|---|---|")
for d in sorted(glob.glob('/verif/seeded/*/')):
    m = json.load(open(d + 'meta.json')); db = m['detected_by']
    print(f"| {m['seed_id']} | {(m.get('summary') or '').replace('|','/')[:160]} | {db['check']} | {db['rule']} | {'yes' if db['on_first_attempt'] else 'no'} |")
