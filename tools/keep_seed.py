#!/usr/bin/env python3
"""tools/keep_seed.py <worktree> <n> <seed-id> <detected_by_check> <rule> <first_try:yes|no> [note]
Copies a confirmed seeded change into /verif/seeded/<seed-id>/ with meta.json."""
import sys, json, shutil, os, glob
wt, n, sid, check, rule, first = sys.argv[1:7]
note = sys.argv[7] if len(sys.argv) > 7 else ""
src = f"{wt}/out/{n}"
dst = f"/verif/seeded/{sid}"
os.makedirs(dst, exist_ok=True)
for f in ("patch.diff", "demo.diff", "RUN.txt"):
    shutil.copy(f"{src}/{f}", f"{dst}/{f}")
meta = json.load(open(f"{src}/meta.json"))
conf = None
for log in glob.glob("/tmp/confirm*.log"):
    for l in open(log):
        try:
            j = json.loads(l)
        except Exception:
            continue
        if j.get("seed") == src:
            conf = j
out = {
    "seed_id": sid,
    "property": meta.get("property"),
    "summary": meta.get("summary"),
    "needs_to_manifest": meta.get("needs"),
    "files": meta.get("files"),
    "author_verified": meta.get("verified"),
    "confirmed_independently": {k: conf[k] for k in ("suite_passes_with_change", "demo_fails_with_change", "demo_passes_without_change", "demo_cmd")} if conf else None,
    "what_i_ran": [
        "tools/confirm_seed.sh <scratch worktree> <n>: git apply patch.diff; cargo test --workspace --no-fail-fast --offline (suite); git apply demo.diff; demo command (must fail); git apply -R patch.diff; demo command (must pass)",
        f"tools/try_seed.sh seeded/{sid}/patch.diff {check}: git -C /repo apply; ./check {check} quick; git -C /repo checkout -- .",
    ],
    "detected_by": {"check": check, "rule": rule, "tier": "quick", "on_first_attempt": first == "yes", "note": note},
}
json.dump(out, open(f"{dst}/meta.json", "w"), indent=1)
print("kept", dst)
