#!/usr/bin/env python3
"""Regenerates /verif/MANIFEST.json from the table below (keeps it valid at all times)."""
import json, subprocess, sys
hook_commits = subprocess.run(["git","-C","/repo","log","--format=%H","--grep=^verif-hooks"],capture_output=True,text=True).stdout.split()

TECH = "deterministic simulation with fault injection: seeded search over scenarios (API call histories, peer packets, interface events, network/scheduling faults) executed by the real daemon thread in lock-step on a virtual clock; oracle over the recorded history"

# id -> (category, text, design_ref, note)
CLAIMED = {
 "C19": ("exploration",
   "Seeded search over search histories (browse / resolve_hostname / stop / re-browse / receiver drop) on 1-3 interface hosts over hours to days of virtual time. Silent-network runs demand ms-exact equality between the queries on the wire (per interface and address family) and the 1,2,4...2048,3600 s schedule derived from the call history; responder runs demand that every query is covered by the schedule or a refresh/follow-up/verify allowance. Sampling, not proof; the schedule space per search is small and the cap (hour 1+) is reached in most runs.",
   "7.19", "Trusts the seam (send_to capture, virtual clock), the independent wire parser, and that the lock-step gate does not change loop behaviour; allowances in responder runs are upper bounds."),
}
NA_REASON = "no check registered yet in this build of the framework (planned in DESIGN.md section 7; not claimed until its oracle passes the no-false-alarm bar)"

props = [json.loads(l)["id"] for l in open("/verif/properties.jsonl")]
checks=[]
for pid in props:
    if pid in CLAIMED:
        cat,text,ref,note = CLAIMED[pid]
        checks.append({
          "property_id": pid,
          "quick_cmd": f"./check {pid} quick",
          "thorough_cmd": f"./check {pid} thorough",
          "evidence_file": f"/verif/evidence/{pid}.json",
          "replay_cmd_template": "./check replay {path}",
          "engine": "mdns-sim",
          "level_claimed": {"category": cat, "text": text, "design_ref": f"DESIGN.md {ref}"},
          "level_note": note,
          "technique": TECH,
        })
m = {
 "version": 1,
 "setup_cmd": "cd /verif/sim && CARGO_NET_OFFLINE=true cargo build --release --offline",
 "hooks": {
   "guard": "verif-hooks",
   "enable": "cargo feature: /verif/sim depends on /repo by path with features = [\"verif-hooks\"]; every ./check rebuilds from /repo's working tree",
   "baseline_off_cmd": "cd /repo && cargo nextest run --workspace --no-fail-fast --test-threads 8 --offline || cargo test --workspace --no-fail-fast --offline",
   "source_commits": hook_commits,
   "add_only": True,
 },
 "engines": [{"name":"mdns-sim","path":"/verif/sim","serves_properties":sorted(CLAIMED.keys()),
   "kind_free_text":"deterministic discrete-event simulator: real Zeroconf::run threads parked/released one at a time through guarded seams (clock, poll, sockets, interface table, jitter, hash seeds); seeded scenario generators; per-property oracles; ddmin shrinking; JSON replay files"}],
 "checks": checks,
 "not_applicable": [{"property_id": p, "reason": NA_REASON} for p in props if p not in CLAIMED],
 "notes": "All checks: exit 0 held / 1 VIOLATION with replay / 2 harness error. VERIF_SEED selects the batch (default 1). Known findings: /verif/known_findings.json.",
}
json.dump(m, open("/verif/MANIFEST.json","w"), indent=1)
print("claimed:", sorted(CLAIMED.keys()))
