#!/usr/bin/env python3
"""Regenerates /verif/MANIFEST.json from the table below (keeps it valid at all times)."""
import json, subprocess, sys
hook_commits = subprocess.run(["git","-C","/repo","log","--format=%H","--grep=^verif-hooks"],capture_output=True,text=True).stdout.split()

TECH = "deterministic simulation with fault injection: seeded search over scenarios (API call histories, peer packets, interface events, network/scheduling faults) executed by the real daemon thread in lock-step on a virtual clock; oracle over the recorded history"

# id -> (category, text, design_ref, note)
CLAIMED = {
 "C01": ("exploration",
   "Byte strings from six Mallory generators (uniform random, mutations and truncations of valid packets, grammar packets with arbitrary counts / RDLENGTH / pointer graphs, pointer-graph specials, every string over a small name-byte alphabet up to a fixed length after a header, oversized datagrams up to 9000 bytes) are delivered through the receive seam to a daemon with open browses, a hostname search and a registration, one or several per wake-up. Deciding oracle: the daemon thread neither panics nor hangs (watchdog on the step), the step's allocation stays proportional to the datagram (counting allocator per daemon thread), and the daemon still answers a follow-up browse afterwards; the guarded decode facade is compared with an independent strict RFC 1035 decoder: every accepted name is one the datagram could encode (<= 255 bytes), every record lies inside the datagram.",
   "7.1", "Decoding is a pure function; what the simulation adds is that the bytes reach it through the real read path of a busy daemon, with time limits enforced by the step watchdog. The small-alphabet part is exhaustive up to the stated length; the rest is sampled."),
 "C14": ("fault_enumeration",
   "The three guarded yield points in the daemon loop (after a command is taken, after the clean-up at exit, after the shutdown reply) let the simulator run caller-thread API calls at exact positions relative to the Exit command: for N <= 3 other commands of every kind, every position of shutdown among them and every yield point is enumerated (quick: N <= 2), plus seeded longer mixes with several handle clones. Oracle over the history: goodbye for every announced service, SearchStopped last on every browse / hostname channel, Shutdown status, every later call fails with DaemonShutdown, every reply channel yields or disconnects (no caller can block for ever), clean-up exactly once, no panic.",
   "7.14", "Caller threads are simulated at the yield points of the daemon thread (the daemon is the only real thread); interleavings inside flume's channel implementation are not explored."),
 "C15": ("exploration",
   "API family: every public function is called with strings from a hostile-argument grammar (empty, 63/64/255-byte labels, multi-byte UTF-8 at every boundary, dots / backslashes, missing or doubled suffixes, existing conflict suffixes up to u32::MAX) and extreme numbers (timeouts to u64::MAX, ports, TTL options), followed by enough virtual time for probing, announcing, renames (a conflicter peer contests names), follow-up queries and clock jumps; packet family: Mallory packets and targeted hostile records (labels ending in backslash, dots inside labels, root targets, over-long merged labels) are delivered to a daemon with active browses, resolvers and registrations. Oracle: no caller panic (catch_unwind at the API seam), daemon thread alive and not hung, and a fresh browse + answer afterwards is still served (follow-up rule).",
   "7.15", "Sampling; arithmetic overflow is made observable by building the simulator with overflow checks on."),
 "C02": ("exploration",
   "Every packet the real daemon emits in two stress families is judged: 'resp' (1-6, in overflow worlds 90-170, services registered under a hostile label alphabet - dots, backslashes, trailing backslash, multi-byte UTF-8, 63-byte labels, case variants, shared suffixes, TXT up to several KB - and asked PTR / meta / ANY / SRV / TXT / A / AAAA / multi-question / legacy-unicast questions) and 'ka' (a browse whose 1-8 / 150-420 cached instances, TTL up to u32::MAX, come back as known answers). Rules: <= 8972 bytes and read completely by an independent strict RFC 1035 parser; every record equals label for label and byte for byte a record of the registered services (resp) or a received record (ka); a question with registered answers / a scheduled query is never silently dropped and a PTR is left out only when the packet has no room; the crate's decoder (facade) reads the same content. A third family drives the encoder alone through the guarded facade (seeded messages in all sections, sizes swept across the packet limit byte by byte, roll-back shapes): that part is input generation on a pure function, included because the encoder's multi-packet (TC) path is unreachable from the daemon.",
   "7.2", "'Records that were added' is not observable on the wire: the simulated families compare against models of what the daemon should add. NSEC encoding (not in the property's quantifier, never used by the daemon) is not judged."),
 "C03": ("exploration",
   "Seeded search over announcement / update / goodbye / silence histories delivered with loss, duplication, delays up to 15 s, wake latency and spurious wake-ups; every ServiceResolved event is judged against a receive model built from the packets as delivered (TTL from last arrival, TTL 0 = 1 s, cache-flush one-second rule, per-interface address tags). The model over-approximates what may be live, so a flagged event uses a record no delivery can justify. Sampling over histories; TTLs 2 s..75 min reached because virtual hours cost milliseconds.",
   "7.3", "Trusts the independent codec and the receive model's reading of the statement; 'maybe accepted' packets (answers to someone else's browse) never raise an alarm."),
 "C04": ("exploration",
   "Seeded search over partitions of an instance's record set into 1-3 packets in random order and section placement, duplicates, loss and delay, with peers that answer or ignore the daemon's own follow-up queries. Demands ServiceFound in the step that accepted the PTR, ServiceResolved in the step that completed the set, and the 3 x 500 ms follow-up schedule (ms-exact in the strict profile).",
   "7.4", "Completeness is demanded only for definitely-accepted deliveries; partition enumeration is sampled, not complete."),
 "C05": ("exploration",
   "Seeded search over goodbye / expiry / verify histories on the virtual clock; predicts every end-of-life moment (goodbye+1 s, PTR / last SRV / last address expiry, verify deadline) from definitely-accepted deliveries and demands ServiceRemoved at that millisecond (strict) or within the injected latency; soundness (no removal while PTR+SRV+address live) and no resurrection are checked in every profile incl. lossy ones.",
   "7.5", "Timeliness rules abstain in lossy profiles; two behaviours tied to the crate's final-second (expires_soon) handling are listed as known findings."),
 "C06": ("exploration",
   "Seeded search over registration histories x 20-50 injected queries per world (all question kinds, letter cases, families, legacy unicast) on 1-3 interface hosts; each delivered query's response set is compared with the responder model: required records present, nothing outside required+allowed, TTL 120/4500, cache-flush bits, link-local addresses only, unicast/multicast destination, ID and question echo.",
   "7.6", "Queries that coincide with the daemon's own scheduled sends, or follow a conflict rename, are not judged (counted as abstentions)."),
 "C07": ("fault_enumeration",
   "The probe start jitter is a simulator input and is enumerated (quick: 8-point grid incl. both ends; thorough: all 250 values) across seeded registration worlds and 6 profiles; strict profile demands probes exactly at register+jitter, +250, +500 and announcements at +750, +1750 per interface and family, with the authority section and host-name question checked; latency/stall profiles check the same as inequalities.",
   "7.7", "Enumeration is complete over the jitter dimension only; world shapes are sampled. Stall-induced short probing and the self-conflict livelock are known findings."),
 "C08": ("fault_enumeration",
   "Two or three real daemons on one loss-free simulated link claim the same instance (or host) name with different data; the start offset of the second runs over a 30-point grid from simultaneous to 5 s (all probe-step boundaries +-1 ms) and each daemon's probe jitter over a 6-point grid; afterwards a peer asks every question type for every generation of the names and the services are withdrawn. A second family injects a scripted conflict (SRV / TXT / both / host address) at 11 instants of the probing window, in 1-3 rounds, on names with existing '(N)' / '-N' suffixes up to u32::MAX, escaped dots, non-ASCII and 58-63-byte labels. A third family sends a competing probe whose authority records vary the daemon's own in 20 ways and lets a reference RFC 6762 8.2 comparison decide who defers. Oracle: everybody announced, no contested name has two holders, exactly one keeps the original; NameChange events; new names 'x (2)' / 'h-2' counting up, still encodable, probed three times before use; no later packet (answers, additionals, goodbyes) carries a lost name; the loser of a comparison waits exactly one second, the winner's schedule is unchanged.",
   "7.8", "The grids are enumerated completely in the thorough tier; quick samples them. Names with '.' or '\\' inside the label are a known finding (conflicts on them are never detected)."),
 "C09": ("exploration",
   "Seeded search over register / re-register / unregister (exact, other case, unknown, twice, at 5-5000 ms after register) / shutdown histories on 1-3 interfaces; status replies, goodbye content per interface and family (TTL 0, names, addresses of that link), absence where never announced, byte-identical repeat at +120 ms, and silence afterwards are read from the wire.",
   "7.9", "'Announced on an interface' is read from the wire; services renamed by a conflict are judged by C08, not here."),
 "C10": ("fault_enumeration",
   "Responder side: registration worlds whose injected queries list subsets of the daemon's own records as known answers with TTL on the grid {0, 1, half-1, half, half+1, full, u32::MAX} and one-field variants (class, RDATA, owner, flush bit, wrong section); each expected record is classified must-be-absent / must-be-present / not judged (TTL = half) and a suppressed PTR must take its additionals along. Querier side: shared PTRs (and unique SRV/TXT/A) delivered so that scheduled queries land at half-life -2..+2 ms, +-100, +-400 ms; every listed known answer must be a cached non-unique record with >= half its life left and the remaining TTL written, every certainly cached shared record with > half left must be listed, on every interface and family.",
   "7.10", "Boundary grids are enumerated; worlds around them are sampled. Two responder-side behaviours (subtype question vs base-type known answer; owner-name case) are known findings."),
 "C11": ("fault_enumeration",
   "Every TTL 1..60 s (quick) / 1..300 s (thorough) plus 8 large values up to u32::MAX is used as the TTL under test for PTR, SRV, TXT or address records of a browsed service or a resolved host; afterwards the peer stays silent, answers only the k-th refresh query, re-sends the record at a seeded age, or sends a cache-flush sibling at ages on a 100 ms grid plus 999/1000/1001 ms. Strict profile: per question the observed query times equal back-off schedule + mark(80/85/90/95) of every record life (host search: mark(80)); stall profile: at most one query per mark passed. Use-window and flush clauses are decided by the C03/C17 oracles evaluated on the same histories.",
   "7.11", "Record lives are computed from the time the daemon read the packet; follow-up queries after an expiry are allowed at +500/1000/1500 ms."),
 "C12": ("exploration",
   "Metamorphic simulation: every seeded world (search, register, browse, ipcheck, tiebreak families) is executed twice on the virtual clock, once silent and once with an additional wake-up every 37 / 211 / 1009 ms although nothing is due; the packet and event histories (with times) must be identical, so any work that had no wake-up request of its own shows as a difference. The silent run is also scanned for runs of do-nothing wake-ups requested for 'now' (spin), with the interface-check interval at default, huge, zero and changed at run time.",
   "7.12", "Relies on extra wake-ups being no-ops for a correct daemon; only work due before the horizon can be revealed; packets sent within one millisecond are compared as multisets."),
 "C13": ("exploration",
   "Seeded interleavings of browse / re-browse / browse_cache / stop / resolve_hostname (timeouts, letter cases) / stop_resolve_hostname / shutdown placed at, just before and after retransmission times, against answering peers, observed for minutes to hours after each stop: per-channel protocol (SearchStarted first, Found before Resolved, SearchStopped once and last), no query for a stopped type or host on the wire, cache forgotten (cache-only browse right after a stop), replaced browse hands over.",
   "7.13", "A search counts as stopped from the end of the consuming step; refresh queries on behalf of a cache-only browse are a known finding."),
 "C16": ("exploration",
   "Two real daemons on one simulated link: A registers services whose property lists come from a seeded generator (0-30 entries; keys in mixed case, duplicated in the same and in another case, with spaces, punctuation, control characters, 200-254 bytes long, not ASCII, containing '='; values absent, empty, with '=' and NUL, arbitrary bytes, UTF-8, sized so that key=value is 254 / 255 / 256 bytes) through every input type (Vec<TxtProperty>, &[(K,V)], HashMap, Option<HashMap>, None); B browses, in strict and lossy-with-retransmission profiles. The oracle compares (R1) refusal at creation with representability, (R2) the TXT RDATA on the wire with an independent reference encoding, (R3) B's ServiceResolved with the registered list (keys, case, bytes, order, none vs empty, first occurrence), (R4) upper/lower-case look-ups at B. A second family has a scripted peer send arbitrary bytes as TXT RDATA (random, cut short, zero-length strings, non-UTF-8 keys, RDLENGTH 0 ...): the daemon survives and reports the reference decoding.",
   "7.16", "The property quantifies over inputs; the simulation contributes the two-party pipeline (encode, packets, decode, events) and loss/retransmission. Slice and map input types cannot express 'no value' or raw bytes; the model follows the types."),
 "C17": ("exploration",
   "Seeded worlds with resolve_hostname in all letter-case classes and timeouts {none, 0, 1, 500, 1000, 2999, 3000, 3001, 10^6} against a (multi-homed) peer that spells the name in its own case and whose address set changes (added with/without cache-flush, goodbye, TTL 1..120 s), strict / latency / lossy profiles: every reported address justified by a live record learned on the tagged interface; new addresses reported in the accepting step; removals at the end of life (strict: that ms); cached addresses replayed at once; no query at or after the deadline.",
   "7.17", "Completeness and removal timing only for definitely-accepted deliveries in fault-free networks; soundness in all profiles."),
 "C18": ("exploration",
   "The simulator owns the interface table and changes it while the daemon runs: seeded worlds with 2-3 interfaces (IPv4 / IPv6 / dual, differing subnets, secondary addresses), 0-4 enable / disable selections of every kind before and after registering a fixed-address service and a service with automatic addressing, then interface events (interface gone, new interface, address vanishes while the interface stays, new address, address moves) interleaved with further selections; peers on every segment and family ask at the end. A reference model (table in force with one check period of grace, selections in call order with last match winning, Addr selections bound to the interface that carried the address) judges every packet with service records: not on an absent interface, not on a disabled channel, not where the service has no address in the subnet, only the addresses that belong on that link; the service with automatic addressing must be reachable on exactly the enabled, present channels with the current addresses. Ingress worlds: a browsing daemon learns instances on two links (one multi-homed), then a link disappears or is disabled by name / index / address / family: removal and re-resolution events within one check period, and no later event lists an address learned on the dead link.",
   "7.18", "Completeness is demanded for automatic addressing only; a vanished IPv6 address on an interface that stays is outside the statement and only has to be survived."),
 "C19": ("exploration",
   "Seeded search over search histories (browse / resolve_hostname / stop / re-browse / receiver drop) on 1-3 interface hosts over hours to days of virtual time. Silent-network runs demand ms-exact equality between the queries on the wire (per interface and address family) and the 1,2,4...2048,3600 s schedule derived from the call history; responder runs demand that every query is covered by the schedule or a refresh/follow-up/verify allowance. Sampling, not proof; the schedule space per search is small and the cap (hour 1+) is reached in most runs.",
   "7.19", "Trusts the seam (send_to capture, virtual clock), the independent wire parser, and that the lock-step gate does not change loop behaviour; allowances in responder runs are upper bounds."),
 "C20": ("exploration",
   "Long virtual horizons (75 min per run) of traffic nobody asked for: a daemon with one or two browses and a host-name search (sometimes a registration) receives 300-3000 packets under distinct names - complete announcements of other types (records as answers or additionals), SRV / TXT / address / NSEC without PTR, subtype PTRs, goodbyes for records never cached, other hosts' probes, meta-type answers - interleaved with repeated announcements and goodbyes of 1-4 wanted instances (some never resolvable); its own get_metrics is sampled after one, two and three thirds of the stream, then all searches are stopped (sometimes with follow-up queries pending), the stream continues, and after the longest TTL has passed the metrics are read again. Oracle: cached-record counts never above the wanted records delivered; timers bounded per wanted record and search; no growth between samples beyond new wanted records; the final sample shows zero cached records and at most the interface-check timer; no query in the final quiet period.",
   "7.20", "Queued retransmissions are not in the metrics; they show through the timer count and the wire. Two behaviours are known findings (PTR-less responses are cached for everybody; every copy of a record queues more timers)."),
}
NA_REASON = "no check registered yet in this build of the framework (planned in DESIGN.md section 7; not claimed until its oracle passes the no-false-alarm bar)"

props = [json.loads(l)["id"] for l in open("/verif/properties.jsonl")]
checks=[]
for pid in props:
    if pid in CLAIMED:
        cat,text,ref,note = CLAIMED[pid]
        checks.append({
          "property_id": pid,
          "quick_cmd": f"./check {pid} quick",
          "thorough_cmd": f"./check {pid} thorough",
          "evidence_file": f"/verif/evidence/{pid}.json",
          "replay_cmd_template": "./check replay {path}",
          "engine": "mdns-sim",
          "level_claimed": {"category": cat, "text": text, "design_ref": f"DESIGN.md {ref}"},
          "level_note": note,
          "technique": TECH,
        })
m = {
 "version": 1,
 "setup_cmd": "cd /verif/sim && CARGO_NET_OFFLINE=true cargo build --release --offline",
 "hooks": {
   "guard": "verif-hooks",
   "enable": "cargo feature: /verif/sim depends on /repo by path with features = [\"verif-hooks\"]; every ./check rebuilds from /repo's working tree",
   "baseline_off_cmd": "cd /repo && cargo nextest run --workspace --no-fail-fast --test-threads 8 --offline || cargo test --workspace --no-fail-fast --offline",
   "source_commits": hook_commits,
   "add_only": True,
 },
 "engines": [{"name":"mdns-sim","path":"/verif/sim","serves_properties":sorted(CLAIMED.keys()),
   "kind_free_text":"deterministic discrete-event simulator: real Zeroconf::run threads parked/released one at a time through guarded seams (clock, poll, sockets, interface table, jitter, hash seeds); seeded scenario generators; per-property oracles; ddmin shrinking; JSON replay files"}],
 "checks": checks,
 "not_applicable": [{"property_id": p, "reason": NA_REASON} for p in props if p not in CLAIMED],
 "notes": "All checks: exit 0 held / 1 VIOLATION with replay / 2 harness error. VERIF_SEED selects the batch (default 1). Known findings: /verif/known_findings.json.",
}
json.dump(m, open("/verif/MANIFEST.json","w"), indent=1)
print("claimed:", sorted(CLAIMED.keys()))
