#!/bin/bash
# tools/sweep.sh <first-seed> <last-seed> [tier]: runs every check with each seed, restores the evidence files, and
# prints every non-zero exit with its first violation lines. The unchanged tree must come out silent.
cd "$(dirname "$0")/.."
A=${1:-2}; B=${2:-5}; T=${3:-quick}
rm -rf /tmp/evidence.sweep; cp -r evidence /tmp/evidence.sweep
for sd in $(seq $A $B); do
  for c in C01 C02 C04 C06 C07 C08 C09 C10 C11 C12 C13 C14 C15 C16 C17 C18 C19 C20 C03 C05; do
    VERIF_SEED=$sd ./check $c $T > /tmp/sweep.$c.$sd 2>&1; rc=$?
    if [ $rc != 0 ]; then echo "seed $sd $c exit=$rc"; grep "^violation\|^VIOLATION\|HARNESS" /tmp/sweep.$c.$sd | head -3 | cut -c1-600; fi
  done
  echo "seed $sd done"
done
rm -rf evidence; mv /tmp/evidence.sweep evidence
