#!/bin/bash
# tools/determinism.sh [runs-per-property] [processes]
# Runs `mdns-sim selftest determinism` in several concurrent processes with worker counts 1, 4 and 16 and compares
# the digests over (property, scenario index, history fingerprint). Every scenario is executed twice inside each
# process as well. Exit 0: all digests equal and no in-process mismatch; exit 2 otherwise.
set -u
cd "$(dirname "$0")/.."
RUNS=${1:-200}; PROCS=${2:-12}
BIN=sim/target/release/mdns-sim
[ -x $BIN ] || { echo "build first (./check selftest)"; exit 2; }
TMP=$(mktemp -d)
for i in $(seq 1 $PROCS); do
  case $((i % 3)) in 0) T=1;; 1) T=4;; *) T=16;; esac
  ( $BIN selftest determinism --runs $RUNS --seed ${VERIF_SEED:-1} --threads $T > $TMP/out.$i 2>&1; echo "exit=$?" >> $TMP/out.$i ) &
done
wait
grep -h "^determinism:" $TMP/out.* | sort | uniq -c
N=$(grep -h "^determinism:" $TMP/out.* | sed 's/.*digest //' | sort -u | wc -l)
BAD=$(grep -h "NONDETERMINISM\|HARNESS" $TMP/out.* | head -5)
FAILS=$(grep -L "exit=0" $TMP/out.* | wc -l)
rm -rf $TMP
if [ "$N" != "1" ] || [ -n "$BAD" ] || [ "$FAILS" != "0" ]; then echo "DETERMINISM FAILURE: $N distinct digests; $BAD"; exit 2; fi
echo "determinism ok: $PROCS processes, worker counts 1/4/16, one digest"
