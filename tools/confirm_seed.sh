#!/bin/bash
# tools/confirm_seed.sh <worktree> <n> : confirm a seeded change independently:
#  (1) the existing suite passes with the change, (2) the demo fails with it, (3) the demo passes without it.
# Prints one JSON line. Leaves the worktree clean.
WT="$1"; N="$2"; O="$WT/out/$N"
export CARGO_TARGET_DIR="$WT/target" CARGO_NET_OFFLINE=true
cd "$WT" || exit 2
git checkout -q -- . ; git clean -fdq tests src 2>/dev/null
CMD=$(grep -h "cargo test" "$O/RUN.txt" | head -1 | sed 's/^[ $]*//')
git apply "$O/patch.diff" || { echo "{\"seed\":\"$O\",\"error\":\"patch does not apply\"}"; exit 1; }
cargo test --workspace --no-fail-fast --offline > "$O/confirm_suite.log" 2>&1; SUITE=$?
git apply "$O/demo.diff" || { echo "{\"seed\":\"$O\",\"error\":\"demo does not apply\"}"; git checkout -q -- .; exit 1; }
timeout 300 bash -c "$CMD" > "$O/confirm_demo_with.log" 2>&1; WITH=$?
git apply -R "$O/patch.diff"
timeout 300 bash -c "$CMD" > "$O/confirm_demo_without.log" 2>&1; WITHOUT=$?
git checkout -q -- . ; git clean -fdq tests src 2>/dev/null
echo "{\"seed\":\"$O\",\"suite_passes_with_change\":$([ $SUITE = 0 ] && echo true || echo false),\"demo_fails_with_change\":$([ $WITH != 0 ] && echo true || echo false),\"demo_passes_without_change\":$([ $WITHOUT = 0 ] && echo true || echo false),\"demo_cmd\":\"$CMD\"}"
