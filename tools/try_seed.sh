#!/bin/bash
# tools/try_seed.sh <patch.diff> <PROP> [PROP...]  — apply a seeded change to /repo, run the quick checks, undo it.
set -u
P="$1"; shift
git -C /repo diff --quiet || { echo "/repo has uncommitted changes"; exit 2; }
git -C /repo apply "$P" || { echo "patch does not apply"; exit 2; }
for ID in "$@"; do
  OUT=$(cd /verif && ./check "$ID" quick 2>&1); RC=$?
  echo "== $ID exit=$RC"
  echo "$OUT" | grep -E "^(VIOLATION|violation:|KNOWN-FINDING|HARNESS|NOTE)" | cut -c1-420
  echo "$OUT" | tail -1 | cut -c1-200
done
git -C /repo checkout -- .
# restore evidence files to the committed (unchanged-tree) state
git -C /verif checkout -- evidence 2>/dev/null
rm -f /verif/replays/*.json
